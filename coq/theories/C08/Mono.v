(* C08 -- the leak discharge is non-decreasing in the pressure head EVERYWHERE (zero branch, smoothing cubic, square-root law), for every
   leak whose regularising slope 1e-11 does not exceed three times the secant slope of the 0.1 mm band (any leak of physical size). *)
From Coq Require Import Reals Lra.
From WNTRV Require Import Lib.ExprR Gen.Formulas Lib.Spline Lib.SplineMono C08.Model C08.Proofs.
Local Open Scope R_scope.

Section Mono.
Variables area cd : R.
Hypothesis Hca : 0 <= cd * area.

Definition lf2 := cd * area * sqrt (2 * (981 / 100) * (0 + ldelta)).                 (* value at the right end of the band *)
Definition lm2 := 1 / 2 * cd * area * sqrt (2 * (981 / 100)) * pw (0 + ldelta) (- (1 / 2)).   (* slope there *)
Definition lsec := (lf2 - 0) / (0 + ldelta - 0).
Definition leak_box : Prop := lslope <= 3 * lsec.

Lemma lm2_half_secant : lm2 = lsec / 2.
Proof.
  pose proof ldelta_pos as Hd. unfold lm2, lsec, lf2. replace (0 + ldelta) with ldelta by ring.
  unfold pw. destruct (Rlt_dec 0 ldelta); [|lra].
  rewrite Rpower_Ropp. replace (1 / 2) with (/ 2) by lra. rewrite Rpower_sqrt by exact Hd.
  rewrite (sqrt_mult (2 * (981 / 100)) ldelta) by lra.
  assert (Hs : 0 < sqrt ldelta) by (apply sqrt_lt_R0; exact Hd).
  assert (Hq : ldelta = sqrt ldelta * sqrt ldelta) by (symmetry; apply sqrt_sqrt; lra).
  set (s := sqrt ldelta) in *. set (s2 := sqrt (2 * (981 / 100))).
  replace ((cd * area * (s2 * s) - 0) / (ldelta - 0) / 2) with (cd * area * (s2 * s) / ldelta / 2) by (field; lra).
  rewrite Hq at 1. field. lra.
Qed.
Lemma lsec_nonneg : 0 <= lsec.
Proof.
  pose proof ldelta_pos as Hd. unfold lsec, lf2. replace (0 + ldelta - 0) with ldelta by ring.
  apply Rmult_le_pos; [|left; apply Rinv_0_lt_compat; exact Hd].
  assert (0 <= sqrt (2 * (981 / 100) * (0 + ldelta))) by apply sqrt_pos. nra.
Qed.

Let f := leak_rate area cd.

Lemma f_band x : 0 <= x <= ldelta -> f x = poly (leak_coeffs area cd) x.
Proof.
  intros [H1 H2]. destruct (Req_dec x 0) as [->|N].
  - destruct (leak_zero area cd 0 ltac:(lra)) as [E _]. unfold f. rewrite E. destruct (leak_C0_C1 area cd) as (A & _). rewrite A. reflexivity.
  - unfold f, leak_rate. destruct (Rle_dec x 0); [lra|]. destruct (Rle_dec x ldelta); [reflexivity|lra].
Qed.
Lemma f_law x : ldelta <= x -> f x = cd * area * sqrt (g2 * x).
Proof.
  intros H. destruct (Req_dec x ldelta) as [->|N].
  - rewrite f_band by (pose proof ldelta_pos; lra). destruct (leak_C0_C1 area cd) as (_ & B & _). exact B.
  - unfold f. rewrite leak_law by lra. unfold g2. reflexivity.
Qed.

Theorem leak_monotone : leak_box -> forall p q, p <= q -> f p <= f q.
Proof.
  intros Hbox. pose proof ldelta_pos as Hd. pose proof lslope_small as Hs. pose proof lsec_nonneg as Hsec. pose proof lm2_half_secant as Hm.
  assert (L0 : forall p q, p <= q -> q <= 0 -> f p <= f q).
  { intros a b Hab Hb. unfold f. destruct (leak_zero area cd a ltac:(lra)) as [-> _]. destruct (leak_zero area cd b Hb) as [-> _].
    apply Rmult_le_compat_l; lra. }
  assert (L1 : forall p q, 0 <= p -> p <= q -> q <= ldelta -> f p <= f q).
  { intros a b Ha Hab Hb. rewrite (f_band a), (f_band b) by lra. rewrite leak_coeffs_spline.
    apply spline_monotone; try lra; fold lf2; fold lm2; fold lsec; unfold leak_box in Hbox; lra. }
  assert (L2 : forall p q, ldelta <= p -> p <= q -> f p <= f q).
  { intros a b Ha Hab. rewrite (f_law a), (f_law b) by lra. apply Rmult_le_compat_l; [exact Hca|]. apply sqrt_le_1_alt. unfold g2. nra. }
  intros p q Hpq.
  assert (M1 : forall p q, p <= q -> q <= ldelta -> f p <= f q).
  { intros a b Hab Hb. destruct (Rle_dec b 0) as [H|H]; [apply L0; assumption|].
    destruct (Rle_dec 0 a) as [H'|H']; [apply L1; lra|]. apply Rle_trans with (f 0); [apply L0; lra|apply L1; lra]. }
  destruct (Rle_dec q ldelta) as [H|H]; [apply M1; assumption|].
  destruct (Rle_dec ldelta p) as [H'|H']; [apply L2; assumption|].
  apply Rle_trans with (f ldelta); [apply M1; lra|apply L2; lra].
Qed.
End Mono.
