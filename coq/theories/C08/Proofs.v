From Coq Require Import Reals ZArith List Bool Lra Lia.
From Coquelicot Require Import Coquelicot.
From WNTRV Require Import Lib.Expr Lib.ExprR Lib.ExprRProofs Gen.Formulas Lib.Spline Lib.Sched C08.Model.
Import ListNotations.
Local Open Scope R_scope.

Lemma ldelta_pos : 0 < ldelta. Proof. unfold ldelta, c_leak_delta. lra. Qed.
Lemma lslope_small : 0 < lslope <= 1 / 100000000000. Proof. unfold lslope, c_leak_slope. lra. Qed.

(* Cd A sqrt(2 g p) for positive gauge pressure beyond the 0.1 mm smoothing band *)
Lemma leak_law area cd p : ldelta < p -> leak_rate area cd p = cd * area * sqrt (2 * (981 / 100) * p).
Proof.
  intro H. pose proof ldelta_pos. unfold leak_rate, g2.
  destruct (Rle_dec p 0); [lra|]. destruct (Rle_dec p ldelta); [lra|reflexivity].
Qed.
(* zero (up to the 1e-11 regularising slope) at zero or negative pressure *)
Lemma leak_zero area cd p : p <= 0 -> leak_rate area cd p = lslope * p /\ Rabs (leak_rate area cd p) <= 1 / 100000000000 * Rabs p.
Proof.
  intro H. unfold leak_rate. destruct (Rle_dec p 0); [|lra]. split; [reflexivity|].
  rewrite Rabs_mult. pose proof lslope_small as Hs. rewrite (Rabs_right lslope) by lra.
  apply Rmult_le_compat_r; [apply Rabs_pos|lra].
Qed.
Lemma leak_inactive area cd p : reported_leak false area cd p = 0.
Proof. reflexivity. Qed.

Lemma leak_coeffs_spline area cd :
  leak_coeffs area cd =
  cubic_spline 0 (0 + ldelta) 0 (cd * area * sqrt (2 * (981 / 100) * (0 + ldelta))) lslope
               (1 / 2 * cd * area * sqrt (2 * (981 / 100)) * pw (0 + ldelta) (- (1 / 2))).
Proof.
  unfold leak_coeffs, ldelta, lslope. cbv zeta.
  destruct (cubic_spline 0 (0 + c_leak_delta) 0 _ c_leak_slope _) as [[[a b] c] d]. reflexivity.
Qed.

(* C0 and C1 at both ends of the band: continuous with the zero branch at p = 0 and with the square-root law at p = delta *)
Lemma leak_C0_C1 area cd :
  poly (leak_coeffs area cd) 0 = lslope * 0 /\
  poly (leak_coeffs area cd) ldelta = cd * area * sqrt (g2 * ldelta) /\
  dpoly (leak_coeffs area cd) 0 = lslope /\
  dpoly (leak_coeffs area cd) ldelta = 1 / 2 * cd * area * sqrt (2 * (981 / 100)) * pw ldelta (- (1 / 2)).
Proof.
  pose proof ldelta_pos as Hd. rewrite leak_coeffs_spline.
  assert (N : 0 <> 0 + ldelta) by lra.
  destruct (spline_interpolates 0 (0 + ldelta) 0 (cd * area * sqrt (2 * (981 / 100) * (0 + ldelta))) lslope
              (1 / 2 * cd * area * sqrt (2 * (981 / 100)) * pw (0 + ldelta) (- (1 / 2))) N) as [A [B [C D]]].
  replace (0 + ldelta) with ldelta in * by ring. unfold g2.
  repeat split; try assumption. rewrite A. ring.
Qed.

(* the slope matched at p = delta is the derivative of the square-root law *)
Lemma sqrt_law_derivative area cd p :
  0 < p -> is_derive (fun x => cd * area * sqrt (2 * (981 / 100) * x)) p (1 / 2 * cd * area * sqrt (2 * (981 / 100)) * pw p (- (1 / 2))).
Proof.
  intro Hp. auto_derive; [lra|].
  unfold pw. destruct (Rlt_dec 0 p); [|lra].
  rewrite Rpower_Ropp. replace (1 / 2) with (/ 2) by lra. rewrite Rpower_sqrt by exact Hp.
  rewrite sqrt_mult by lra.
  assert (Hs : 0 < sqrt p) by (apply sqrt_lt_R0; exact Hp).
  assert (H2 : 0 < sqrt (2 * (981 / 100))) by (apply sqrt_lt_R0; lra).
  assert (Hq : 2 * (981 / 100) = sqrt (2 * (981 / 100)) * sqrt (2 * (981 / 100))) by (symmetry; apply sqrt_sqrt; lra).
  set (s2 := sqrt (2 * (981 / 100))) in *. rewrite Hq. field. split; lra.
Qed.

(* activation window: with start < stop the two AT TIME controls switch the flag on in the step containing `start`
   and off in the step containing `stop`, each with the step cut back to that instant (C04_simtime_eq_fires_iff) *)
Local Open Scope Z_scope.
Lemma leak_start_fires start cur prev : prev < start <= cur -> eval_sim Req start 0 cur prev = (true, cur - start).
Proof.
  intro H. unfold eval_sim. rewrite Z.ltb_irrefl. cbn [andb].
  destruct (Z.ltb_spec prev start); [|lia]. destruct (Z.leb_spec start cur); [reflexivity|lia].
Qed.
Example leak_window_example :
  (* start 7300 s and stop 14400 s, hydraulic step 3600 s: both instants are solved steps and the flag is on exactly on [start, stop) *)
  match run (leak_cfg 3600 3600 21600 7300 14400) with
  | Some tr => window_ok 7300 14400 tr && has_time 7300 tr && has_time 14400 tr
  | None => false end = true.
Proof. vm_compute. reflexivity. Qed.
