From Coq Require Import QArith Qabs ZArith List Bool Arith Lia Lqa.
From WNTRV Require Import C01.Model C20.Model.
Import ListNotations.

Section Gcd.
Local Open Scope Z_scope.
(* whatever the loop returns is the gcd (Euclid's invariant); termination within the fuel is checked by evaluation *)
Lemma gcd_loop_sound fuel : forall x y g, 0 <= x -> 0 <= y -> gcd_loop fuel x y = Some g -> g = Z.gcd x y.
Proof.
  induction fuel as [|f IH]; intros x y g Hx Hy H; cbn [gcd_loop] in H; [discriminate|].
  destruct (Z.eqb_spec y 0) as [->|Hy0].
  - injection H as <-. rewrite Z.gcd_0_r. lia.
  - assert (Hlt : y <? 0 = false) by (apply Z.ltb_ge; lia). rewrite Hlt in H.
    apply IH in H; [|lia|apply Z.mod_pos_bound; lia].
    rewrite H. rewrite Z.gcd_comm. rewrite Z.gcd_mod by lia. apply Z.gcd_comm.
Qed.

Theorem gcd_code_correct x y g : 0 <= x -> 0 <= y -> gcd_code x y = Some g -> g = Z.gcd x y.
Proof. intros. eapply gcd_loop_sound; eassumption. Qed.

Theorem lcm_code_correct x y v : 0 < x -> 0 < y -> lcm_code x y = Some v -> v = Z.lcm x y.
Proof.
  intros Hx Hy H. unfold lcm_code in H. destruct (gcd_code x y) as [g|] eqn:E; [|discriminate].
  injection H as <-. apply gcd_code_correct in E; try lia. subst g.
  unfold Z.lcm. rewrite Z.abs_eq.
  - rewrite Z.divide_div_mul_exact; [reflexivity| |apply Z.gcd_divide_r].
    intro Hq. apply Z.gcd_eq_0 in Hq. lia.
  - apply Z.mul_nonneg_nonneg; [lia|]. apply Z.div_pos; [lia|].
    pose proof (Z.gcd_nonneg x y) as Hn. assert (Hz : Z.gcd x y <> 0) by (intro Hq; apply Z.gcd_eq_0 in Hq; lia). lia.
Qed.

(* the period used by average_expected_demand is a common multiple of every pattern period *)
Theorem period_common_multiple l : forall acc v,
  0 < acc -> (forall x, In x l -> 0 < x) -> lcml_code acc l = Some v ->
  (acc | v) /\ (forall x, In x l -> (x | v)) /\ 0 < v.
Proof.
  induction l as [|x l IH]; intros acc v Ha Hl H; cbn [lcml_code] in H.
  - injection H as <-. split; [apply Z.divide_refl|]. split; [intros ? []|exact Ha].
  - destruct (lcm_code acc x) as [w|] eqn:E; [|discriminate].
    assert (Hx : 0 < x) by (apply Hl; left; reflexivity).
    apply lcm_code_correct in E; try assumption. subst w.
    assert (Hw : 0 < Z.lcm acc x).
    { pose proof (Z.lcm_nonneg acc x) as Hn. assert (Hz : Z.lcm acc x <> 0) by (intro Hq; apply Z.lcm_eq_0 in Hq; lia). lia. }
    destruct (IH _ _ Hw (fun y Hy => Hl y (or_intror Hy)) H) as [H1 [H2 H3]].
    split; [eapply Z.divide_trans; [apply Z.divide_lcm_l|exact H1]|]. split; [|exact H3].
    intros y [<-|Hy]; [eapply Z.divide_trans; [apply Z.divide_lcm_r|exact H1]|apply H2; exact Hy].
Qed.
End Gcd.

Section Avg.
Local Open Scope Q_scope.
(* the sum of a P-periodic sequence over m whole periods is m times the sum over one period:
   the mean over one common period equals the mean over any whole number of periods *)
Lemma sumQ_shift f n k : sumQ f (n + k) == sumQ f n + sumQ (fun i => f (n + i)%nat) k.
Proof.
  induction k as [|k IH]; cbn [sumQ].
  - rewrite Nat.add_0_r. ring.
  - rewrite Nat.add_succ_r. cbn [sumQ]. rewrite !Qred_correct. rewrite IH. ring.
Qed.
Lemma sumQ_ext f g n : (forall i, (i < n)%nat -> f i == g i) -> sumQ f n == sumQ g n.
Proof.
  induction n as [|n IH]; intro H; cbn [sumQ]; [reflexivity|].
  rewrite !Qred_correct. rewrite IH by (intros; apply H; lia). rewrite (H n) by lia. reflexivity.
Qed.
Theorem sum_whole_periods f P m :
  (forall i, f (i + P)%nat == f i) -> sumQ f (m * P) == inject_Z (Z.of_nat m) * sumQ f P.
Proof.
  intro Hper. induction m as [|m IH].
  - cbn. ring.
  - replace (S m * P)%nat with (m * P + P)%nat by lia. rewrite sumQ_shift, IH.
    assert (Hs : sumQ (fun i => f (m * P + i)%nat) P == sumQ f P).
    { apply sumQ_ext. intros i _. clear IH. induction m as [|m IHm]; [reflexivity|].
      replace (S m * P + i)%nat with ((m * P + i) + P)%nat by lia. rewrite Hper. exact IHm. }
    rewrite Hs. rewrite Nat2Z.inj_succ. unfold Z.succ. rewrite inject_Z_plus. ring.
Qed.
End Avg.

Section Nearest.
Local Open Scope Q_scope.
(* the looked-up table entry minimises the distance to the requested value *)
Lemma argmin_from_inv x l : forall i best bestd (pre : list Q),
  length pre = i -> (best < i)%nat -> Qabs (nth best pre 0 - x) == bestd ->
  (forall j, (j < i)%nat -> bestd <= Qabs (nth j pre 0 - x)) ->
  let r := argmin_from x l i best bestd in
  (r < i + length l)%nat /\ forall j, (j < i + length l)%nat -> Qabs (nth r (pre ++ l) 0 - x) <= Qabs (nth j (pre ++ l) 0 - x).
Proof.
  induction l as [|y l IH]; intros i best bestd pre Hlen Hb Hbd Hmin; cbn [argmin_from length].
  - rewrite Nat.add_0_r, app_nil_r. split; [exact Hb|]. intros j Hj. rewrite Hbd. apply Hmin. exact Hj.
  - replace (pre ++ y :: l) with ((pre ++ [y]) ++ l) by (rewrite <- app_assoc; reflexivity).
    replace (i + S (length l))%nat with (S i + length l)%nat by lia.
    assert (Hny : nth i (pre ++ [y]) 0 = y) by (rewrite app_nth2 by lia; rewrite Hlen, Nat.sub_diag; reflexivity).
    assert (Hpre : forall j, (j < i)%nat -> nth j (pre ++ [y]) 0 = nth j pre 0) by (intros; apply app_nth1; lia).
    destruct (Qlt_le_dec (Qabs (y - x)) bestd) as [Hlt|Hge].
    + apply IH.
      * rewrite app_length; cbn; lia.
      * lia.
      * rewrite Hny. reflexivity.
      * intros j Hj. destruct (Nat.eq_dec j i) as [->|Hne]; [rewrite Hny; apply Qle_refl|].
        rewrite Hpre by lia. eapply Qle_trans; [apply Qlt_le_weak; exact Hlt|apply Hmin; lia].
    + apply IH.
      * rewrite app_length; cbn; lia.
      * lia.
      * rewrite Hpre by lia. exact Hbd.
      * intros j Hj. destruct (Nat.eq_dec j i) as [->|Hne]; [rewrite Hny; exact Hge|].
        rewrite Hpre by lia. apply Hmin. lia.
Qed.

Theorem nearest_entry_minimises x l j :
  (j < length l)%nat -> Qabs (nth (nearest x l) l 0 - x) <= Qabs (nth j l 0 - x).
Proof.
  destruct l as [|y l]; cbn [length]; intro Hj; [lia|]. unfold nearest.
  destruct (argmin_from_inv x l 1 0 (Qabs (y - x)) [y] eq_refl ltac:(lia) ltac:(reflexivity)) as [_ H].
  - intros k Hk. assert (k = 0)%nat by lia. subst. apply Qle_refl.
  - apply (H j). cbn. lia.
Qed.
End Nearest.

(* the metric ignores pattern_start: at the same simulation time it differs from the delivered (C01) demand *)
Lemma expected_eq_delivered_refuted :
  exists es step ps t mult,
    ~ metric_demand (map (fun e => (fst e, snd e, 0%nat)) es) step t mult None == expected_demand es step ps t mult.
Proof.
  exists [(1#1, Some [1#1; 2#1])], 3600%Z, 3600%Z, 0%Z, (1#1). vm_compute. intro H. discriminate H.
Qed.
(* ... and agrees when evaluated at t + pattern_start *)
Lemma expected_shifted es step ps t mult :
  metric_demand (map (fun e => (fst e, snd e, 0%nat)) es) step (t + ps) mult None == expected_demand es step ps t mult.
Proof.
  unfold metric_demand, expected_demand. generalize (0 : Q). induction es as [|[b p] es IH]; intro a; cbn [map fold_left fst snd]; [reflexivity|].
  apply IH.
Qed.
