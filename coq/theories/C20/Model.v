(* C20 -- metrics: _gcd/_lcm/_lcml, expected demand (with category and multiplier), its average over a common period,
   water service availability, Todini index, modified resilience index, pump power/energy/cost, nearest-entry cost lookup. *)
From Coq Require Import QArith Qabs ZArith List Bool Arith.
From WNTRV Require Import C01.Model.
Import ListNotations.

(* ---- _gcd / _lcm / _lcml (hydraulic.py) ------------------------------------------------------ *)
Section Gcd.
Local Open Scope Z_scope.
Fixpoint gcd_loop (fuel : nat) (x y : Z) : option Z :=
  match fuel with
  | O => None
  | S f => if y =? 0 then Some x
           else let x1 := if y <? 0 then - x else x in
                let y1 := if y <? 0 then - y else y in
                gcd_loop f y1 (x1 mod y1)
  end.
(* enough fuel for Euclid on |y|: each step at least halves every second remainder; log2 bound *)
Definition gcd_code (x y : Z) : option Z := gcd_loop (2 * Z.to_nat (Z.log2 (Z.abs y) + 2) + 2) x y.
Definition lcm_code (x y : Z) : option Z := match gcd_code x y with Some g => Some (x * y / g) | None => None end.
Fixpoint lcml_code (acc : Z) (l : list Z) : option Z :=
  match l with [] => Some acc | x :: r => match lcm_code acc x with Some v => lcml_code v r | None => None end end.
End Gcd.

(* ---- expected demand as the metric computes it ------------------------------------------------- *)
Section Demand.
Local Open Scope Q_scope.
(* entry with category: (base, pattern, category id) ; Demands.at(time, category, multiplier) *)
Definition centry := (Q * option (list Q) * nat)%type.
Definition metric_demand (es : list centry) (step t : Z) (mult : Q) (cat : option nat) : Q :=
  fold_left (fun a e => match e with (b, p, c) =>
     if match cat with None => true | Some k => Nat.eqb c k end then a + entry_at step t (b, p) * mult else a end) es 0.
(* Qred keeps the accumulated fraction in lowest terms (value unchanged: Qred_correct) so that evaluation stays fast *)
Fixpoint sumQ (f : nat -> Q) (n : nat) : Q := match n with O => 0 | S k => Qred (sumQ f k + f k) end.
(* average_expected_demand: mean over tsteps = start, start+step, ..., start + (n-1) step *)
Definition average_demand (es : list centry) (step start : Z) (n : nat) (mult : Q) (cat : option nat) : Q :=
  sumQ (fun k => metric_demand es step (start + Z.of_nat k * step) mult cat) n / inject_Z (Z.of_nat n).
End Demand.

(* ---- resilience / availability / pump metrics over Q ----------------------------------------------- *)
Section Formulas.
Local Open Scope Q_scope.
Definition sumlist (l : list Q) : Q := fold_right Qplus 0 l.
Definition wsa (expected demand : Q) : Q := demand / expected.
(* todini: junction rows (demand, head, pressure), reservoir rows (demand, head), pump rows (flow, start head, end head) *)
Definition todini (Pstar : Q) (junc : list (Q * Q * Q)) (res : list (Q * Q)) (pumps : list (Q * Q * Q)) : Q :=
  let Pout := sumlist (map (fun r => match r with (d, h, p) => d * h end) junc) in
  let Pexp := sumlist (map (fun r => match r with (d, h, p) => d * (Pstar + (h - p)) end) junc) in
  let Pres := sumlist (map (fun r => match r with (d, h) => - d * h end) res) in
  let Ppump := sumlist (map (fun r => match r with (q, hs, he) => q * Qabs (he - hs) end) pumps) in
  (Pout - Pexp) / (Pres + Ppump - Pexp).
Definition mri_junction (Pstar pressure elevation : Q) : Q := ((pressure + elevation) - (Pstar + elevation)) / (Pstar + elevation).
Definition mri_system (Pstar : Q) (rows : list (Q * Q * Q)) : Q :=    (* demand, pressure, elevation *)
  let Pout := sumlist (map (fun r => match r with (d, p, e) => d * (p + e) end) rows) in
  let Pexp := sumlist (map (fun r => match r with (d, p, e) => d * (Pstar + e) end) rows) in
  (Pout - Pexp) / Pexp.
Definition pump_power (flow hstart hend eff_percent : Q) : Q := 1000 * (981 # 100) * (hend - hstart) * flow / (eff_percent / 100).
Definition pump_energy (flow hstart hend eff_percent report_step : Q) : Q := pump_power flow hstart hend eff_percent * report_step.
Definition pump_cost (energy price : Q) : Q := energy * price.

(* np.argmin(|index - x|): first index of a minimal distance *)
Fixpoint argmin_from (x : Q) (l : list Q) (i : nat) (best : nat) (bestd : Q) : nat :=
  match l with
  | [] => best
  | y :: r => if Qlt_le_dec (Qabs (y - x)) bestd then argmin_from x r (S i) i (Qabs (y - x)) else argmin_from x r (S i) best bestd
  end.
Definition nearest (x : Q) (l : list Q) : nat :=
  match l with [] => O | y :: r => argmin_from x r 1 0 (Qabs (y - x)) end.
Definition lookup_cost (x : Q) (tbl : list (Q * Q)) : Q := snd (nth (nearest x (map fst tbl)) tbl (0, 0)).
Definition pipes_cost (tbl : list (Q * Q)) (pipes : list (Q * Q)) : Q :=    (* (diameter, length) *)
  sumlist (map (fun p => lookup_cost (fst p) tbl * snd p) pipes).

(* annual_network_cost (economic.py): every tank (construction volume), pipe (diameter x length), pump (maximum power / global
   efficiency) and PRV (diameter) is charged the entry of ITS table whose size is closest -- whatever the order of the table rows *)
Definition network_cost (tank_tbl pipe_tbl prv_tbl pump_tbl : list (Q * Q)) (tank_vols : list Q) (pipes : list (Q * Q))
           (pump_pmax prv_diams : list Q) : Q :=
  sumlist (map (fun v => lookup_cost v tank_tbl) tank_vols) + pipes_cost pipe_tbl pipes
  + sumlist (map (fun p => lookup_cost p pump_tbl) pump_pmax) + sumlist (map (fun d => lookup_cost d prv_tbl) prv_diams).
(* Tank construction volume with a volume curve: the volume at the maximum level plus the same average area below the minimum level *)
Definition tank_construction_volume_curve (vol_at_max min_level max_level : Q) : Q :=
  vol_at_max + min_level * (vol_at_max / (max_level - min_level)).
Definition power_pump_pmax (power efficiency : Q) : Q := power / efficiency.

Definition close (a b tol : Q) : bool := Qle_bool (Qabs (a - b)) (tol * (1 + Qabs b)).
End Formulas.
