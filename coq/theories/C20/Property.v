(* C20 -- property theorems only. *)
From Coq Require Import QArith Qabs ZArith List Bool.
From WNTRV Require Import C01.Model C20.Model C20.Proofs.
Import ListNotations.

Theorem C20_gcd_correct : forall x y g, (0 <= x)%Z -> (0 <= y)%Z -> gcd_code x y = Some g -> g = Z.gcd x y.
Proof. exact gcd_code_correct. Qed.
Theorem C20_lcm_correct : forall x y v, (0 < x)%Z -> (0 < y)%Z -> lcm_code x y = Some v -> v = Z.lcm x y.
Proof. exact lcm_code_correct. Qed.
(* the averaging period is a common multiple of 24 h and of every pattern period *)
Theorem C20_period_common_multiple : forall l acc v,
  (0 < acc)%Z -> (forall x, In x l -> (0 < x)%Z) -> lcml_code acc l = Some v ->
  (acc | v)%Z /\ (forall x, In x l -> (x | v)%Z) /\ (0 < v)%Z.
Proof. exact period_common_multiple. Qed.
(* mean over a whole number of periods = mean over one period (so the average is over a whole common period) *)
Theorem C20_sum_whole_periods : forall f P m,
  (forall i, f (i + P)%nat == f i) -> sumQ f (m * P) == inject_Z (Z.of_nat m) * sumQ f P.
Proof. exact sum_whole_periods. Qed.
Theorem C20_nearest_entry_minimises : forall x l j,
  (j < length l)%nat -> Qabs (nth (nearest x l) l 0 - x) <= Qabs (nth j l 0 - x).
Proof. exact nearest_entry_minimises. Qed.
(* expected_demand (metric) equals the demand delivered in DD mode once shifted by pattern_start ... *)
Theorem C20_expected_eq_delivered_shifted : forall es step ps t mult,
  metric_demand (map (fun e => (fst e, snd e, 0%nat)) es) step (t + ps) mult None == expected_demand es step ps t mult.
Proof. exact expected_shifted. Qed.
(* ... but not at the same simulation time when pattern_start <> 0 (the metric ignores pattern_start) *)
Theorem C20_expected_eq_delivered_refuted : exists es step ps t mult,
  ~ metric_demand (map (fun e => (fst e, snd e, 0%nat)) es) step t mult None == expected_demand es step ps t mult.
Proof. exact expected_eq_delivered_refuted. Qed.

Print Assumptions C20_gcd_correct.
Print Assumptions C20_lcm_correct.
Print Assumptions C20_period_common_multiple.
Print Assumptions C20_sum_whole_periods.
Print Assumptions C20_nearest_entry_minimises.
Print Assumptions C20_expected_eq_delivered_shifted.
Print Assumptions C20_expected_eq_delivered_refuted.
