(* C05 -- the post-solve control loop of WNTRSimulator.run_sim (wntr/sim/core.py) and the objects it acts on.

   Link state: the three `status` properties of wntr/network/elements.py (Pipe / Pump: internal Closed wins, else the user
   status; Valve: user Closed / Open win, user Active defers to the internal status), `_setting`.
   Actions: ControlAction (writes _user_status / _setting, target = the public attribute) and _InternalControlAction
   (writes _internal_status, target = `status`).  Values are integers: LinkStatus 0 / 1 / 2, settings as the 64-bit
   pattern of the float (only equality is ever used by the tracker).
   _run_postsolve_controls: check() keeps registration order, list.sort(key=priority) is stable and ascending, every
   triggered control runs; ControlChangeTracker.update after every action: the target is in `changed` iff its value now
   differs from the reference point.  run_sim accepts the step iff `changed` is empty after the post-solve and the
   feasibility controls ran; otherwise it solves again (trial + 1, error beyond max_trials). *)
From Coq Require Import ZArith QArith List Bool Arith.
Import ListNotations.
Local Open Scope Z_scope.

Inductive kind := PipeK | PumpK | ValveK.
Inductive attr := Status | Setting.
Record link := { lkind : kind; luser : Z; linternal : Z; lsetting : Z }.
Definition state := list link.

Definition CLOSED := 0.
Definition OPEN := 1.
Definition ACTIVE := 2.

Definition status_of (l : link) : Z :=
  match lkind l with
  | ValveK => if luser l =? CLOSED then CLOSED else if luser l =? OPEN then OPEN else linternal l
  | _ => if linternal l =? CLOSED then CLOSED else luser l
  end.

Definition dflt : link := {| lkind := PipeK; luser := OPEN; linternal := OPEN; lsetting := 0 |}.

Definition get (s : state) (i : nat) (a : attr) : Z :=
  match a with Status => status_of (nth i s dflt) | Setting => lsetting (nth i s dflt) end.

Fixpoint upd (s : state) (i : nat) (f : link -> link) : state :=
  match s, i with
  | [], _ => []
  | l :: r, O => f l :: r
  | l :: r, S j => l :: upd r j f
  end.

Inductive act :=
| UserA (i : nat) (a : attr) (v : Z)      (* ControlAction(link, 'status' | 'setting', v) *)
| InternalA (i : nat) (v : Z).            (* _InternalControlAction(link, '_internal_status', v, 'status') *)

Definition target (a : act) : nat * attr :=
  match a with UserA i at_ _ => (i, at_) | InternalA i _ => (i, Status) end.

Definition run_act (s : state) (a : act) : state :=
  match a with
  | UserA i Status v => upd s i (fun l => {| lkind := lkind l; luser := v; linternal := linternal l; lsetting := lsetting l |})
  | UserA i Setting v => upd s i (fun l => {| lkind := lkind l; luser := luser l; linternal := linternal l; lsetting := v |})
  | InternalA i v => upd s i (fun l => {| lkind := lkind l; luser := luser l; linternal := v; lsetting := lsetting l |})
  end.

Record ctl := { prio : Z; action : act }.

(* list.sort(key=lambda c: c._priority): stable, ascending *)
Fixpoint insert (c : ctl) (l : list ctl) : list ctl :=
  match l with
  | [] => [c]
  | d :: r => if prio c <? prio d then c :: d :: r else d :: insert c r
  end.
Definition sort_prio (l : list ctl) : list ctl := fold_right insert [] (rev l).
(* fold_right over the reversed list inserts the elements in their original order, each after its equals: stable *)
Definition sort_stable (l : list ctl) : list ctl := fold_left (fun acc c => insert c acc) l [].

Definition attr_eqb (a b : attr) := match a, b with Status, Status | Setting, Setting => true | _, _ => false end.
Definition tgt_eqb (x y : nat * attr) := Nat.eqb (fst x) (fst y) && attr_eqb (snd x) (snd y).
Definition remove_t (x : nat * attr) (l : list (nat * attr)) := filter (fun y => negb (tgt_eqb x y)) l.
Definition mem_t (x : nat * attr) (l : list (nat * attr)) := existsb (tgt_eqb x) l.

(* ControlChangeTracker.update for reference point `ref` *)
Definition track (ref : nat -> attr -> Z) (s : state) (a : act) (ch : list (nat * attr)) : list (nat * attr) :=
  let t := target a in
  if get s (fst t) (snd t) =? ref (fst t) (snd t) then remove_t t ch
  else if mem_t t ch then ch else t :: ch.

Definition step_act (ref : nat -> attr -> Z) (sc : state * list (nat * attr)) (a : act) : state * list (nat * attr) :=
  let s' := run_act (fst sc) a in (s', track ref s' a (snd sc)).

Definition run_controls (ref : nat -> attr -> Z) (cs : list ctl) (sc : state * list (nat * attr)) : state * list (nat * attr) :=
  fold_left (step_act ref) (map action (sort_stable cs)) sc.

(* one trial of run_sim after the solve: post-solve controls, then feasibility controls; accepted iff nothing changed *)
Definition after_solve (ref : nat -> attr -> Z) (post feas : list ctl) (s : state) : state * list (nat * attr) :=
  run_controls ref feas (run_controls ref post (s, [])).
Definition accepted (ref : nat -> attr -> Z) (post feas : list ctl) (s : state) : bool :=
  match snd (after_solve ref post feas s) with [] => true | _ => false end.

(* the trial loop: `solve` (Newton + store_results + condition evaluation) is an oracle giving the triggered post-solve and
   feasibility controls of a link state; the reference point is the link state the solve used *)
Section Loop.
  Variable solve : state -> list ctl * list ctl.
  Inductive outcome := Accepted (s : state) | TooManyTrials.
  Fixpoint settle (trials : nat) (s : state) : outcome :=
    let '(post, feas) := solve s in
    let r := after_solve (get s) post feas s in
    match snd r with
    | [] => Accepted (fst r)
    | _ => match trials with O => TooManyTrials | S n => settle n (fst r) end
    end.
End Loop.

(* what the property demands of a state for one triggered simple control that commands status v on link i *)
Definition holds_command (s : state) (i : nat) (v : Z) : Prop :=
  let l := nth i s dflt in
  luser l = v /\
  (get s i Status = v
   \/ (lkind l <> ValveK /\ linternal l = CLOSED /\ get s i Status = CLOSED)     (* CV / pump shut-off / tank limit holds it closed *)
   \/ (lkind l = ValveK /\ v <> CLOSED /\ v <> OPEN /\ get s i Status = linternal l)).   (* valve commanded Active: its own rule decides *)

(* boolean versions for the correspondence cases *)
Definition link_eqb (a b : link) :=
  match lkind a, lkind b with PipeK, PipeK | PumpK, PumpK | ValveK, ValveK => true | _, _ => false end
  && (luser a =? luser b) && (linternal a =? linternal b) && (lsetting a =? lsetting b).
Fixpoint state_eqb (a b : state) :=
  match a, b with [], [] => true | x :: r, y :: r' => link_eqb x y && state_eqb r r' | _, _ => false end.
Definition ref_of (l : list (nat * attr * Z)) (i : nat) (a : attr) : Z :=
  match find (fun e => tgt_eqb (fst e) (i, a)) l with Some e => snd e | None => -1 end.
Definition trial_ok (ref : list (nat * attr * Z)) (post feas : list ctl) (pre post_state : state) (changed : bool) : bool :=
  let r := after_solve (ref_of ref) post feas pre in
  state_eqb (fst r) post_state && Bool.eqb (match snd r with [] => false | _ => true end) changed.

(* ValueCondition.evaluate / TankLevelCondition.evaluate on exact values: a tank condition turns the strict relations into <= / >= *)
Inductive rel := Ge | Le | Gt | Lt | Eq | Ne.
Definition value_cond (r : rel) (cur thr : Q) : bool :=
  match r with
  | Ge => Qle_bool thr cur | Le => Qle_bool cur thr
  | Gt => negb (Qle_bool cur thr) | Lt => negb (Qle_bool thr cur)
  | Eq => Qeq_bool cur thr | Ne => negb (Qeq_bool cur thr)
  end.
Definition tank_cond (r : rel) (cur thr : Q) : bool :=
  value_cond (match r with Gt => Ge | Lt => Le | x => x end) cur thr.
