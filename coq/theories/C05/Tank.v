(* C05 -- tank-level thresholds in the pre-solve pass: TankLevelCondition.evaluate fires when the extrapolated level has crossed
   the threshold since the last evaluation and asks for a whole-second backtrack; the step is cut inside the hydraulic step,
   and with two thresholds crossed in one step the earlier crossing has the larger backtrack (the pre-solve list is sorted by
   backtrack, descending, so it is served first). *)
From Coq Require Import Reals ZArith Lra Lia.
From Flocq Require Import Core.Raux.
From WNTRV Require Import C06.Model C06.Proofs.
Local Open Scope R_scope.

(* level after dt seconds of flow q into a cylindrical tank of diameter d *)
Definition level_after (last q dt d : R) : R := last + q * dt / area d.

Lemma backtrack_inside_step_rising last thr d q (dt : Z) :
  0 < d -> 0 < q -> (0 < dt)%Z -> last < thr -> thr <= level_after last q (IZR dt) d ->
  let b := backtrack (level_after last q (IZR dt) d) thr d q in (0 <= b < dt)%Z.
Proof.
  intros Hd Hq Hdt Hl Hc b. pose proof (area_pos d Hd) as Ha.
  destruct (backtrack_no_overshoot_rising (level_after last q (IZR dt) d) thr d q Hd Hq Hc) as (Hb0 & _ & _).
  split; [exact Hb0|]. apply lt_IZR.
  set (x := (level_after last q (IZR dt) d - thr) * PI / 4 * d ^ 2 / q).
  assert (Hlb : IZR b <= x) by apply Zfloor_lb.
  assert (Ex : x = IZR dt - (thr - last) * area d / q) by (unfold x, level_after, area; field; repeat split; try lra; apply PI_neq0).
  assert (0 < (thr - last) * area d / q).
  { apply Rdiv_lt_0_compat; [apply Rmult_lt_0_compat; lra|exact Hq]. }
  lra.
Qed.
Lemma backtrack_inside_step_falling last thr d q (dt : Z) :
  0 < d -> q < 0 -> (0 < dt)%Z -> thr < last -> level_after last q (IZR dt) d <= thr ->
  let b := backtrack (level_after last q (IZR dt) d) thr d q in (0 <= b < dt)%Z.
Proof.
  intros Hd Hq Hdt Hl Hc b. pose proof (area_pos d Hd) as Ha.
  destruct (backtrack_no_overshoot_falling (level_after last q (IZR dt) d) thr d q Hd Hq Hc) as (Hb0 & _ & _).
  split; [exact Hb0|]. apply lt_IZR.
  set (x := (level_after last q (IZR dt) d - thr) * PI / 4 * d ^ 2 / q).
  assert (Hlb : IZR b <= x) by apply Zfloor_lb.
  assert (Ex : x = IZR dt - (last - thr) * area d / (- q)) by (unfold x, level_after, area; field; repeat split; try lra; apply PI_neq0).
  assert (0 < (last - thr) * area d / (- q)).
  { apply Rdiv_lt_0_compat; [apply Rmult_lt_0_compat; lra|lra]. }
  lra.
Qed.

(* two thresholds crossed in the same step: the one crossed first asks for the larger backtrack *)
Lemma two_thresholds_rising cur thr1 thr2 d q : 0 < d -> 0 < q -> thr1 <= thr2 ->
  (backtrack cur thr2 d q <= backtrack cur thr1 d q)%Z.
Proof.
  intros Hd Hq H. unfold backtrack. apply Zfloor_le. pose proof PI_RGT_0 as Hpi.
  unfold Rdiv. apply Rmult_le_compat_r; [left; apply Rinv_0_lt_compat; exact Hq|].
  apply Rmult_le_compat_r; [apply pow2_ge_0|]. apply Rmult_le_compat_r; [lra|]. apply Rmult_le_compat_r; lra.
Qed.
Lemma two_thresholds_falling cur thr1 thr2 d q : 0 < d -> q < 0 -> thr1 <= thr2 ->
  (backtrack cur thr1 d q <= backtrack cur thr2 d q)%Z.
Proof.
  intros Hd Hq H. unfold backtrack. apply Zfloor_le. pose proof PI_RGT_0 as Hpi.
  replace ((cur - thr1) * PI / 4 * d ^ 2 / q) with ((thr1 - cur) * PI / 4 * d ^ 2 / (- q)) by (field; lra).
  replace ((cur - thr2) * PI / 4 * d ^ 2 / q) with ((thr2 - cur) * PI / 4 * d ^ 2 / (- q)) by (field; lra).
  unfold Rdiv. apply Rmult_le_compat_r; [left; apply Rinv_0_lt_compat; lra|].
  apply Rmult_le_compat_r; [apply pow2_ge_0|]. apply Rmult_le_compat_r; [lra|]. apply Rmult_le_compat_r; lra.
Qed.
