From Coq Require Import ZArith List Bool Arith Lia Permutation Sorted.
From WNTRV Require Import C05.Model.
Import ListNotations.
Local Open Scope Z_scope.

(* ---- upd / nth ---- *)
Lemma upd_length s i f : length (upd s i f) = length s.
Proof. revert i; induction s as [|l r IH]; intros [|j]; simpl; auto. Qed.
Lemma nth_upd_same s i f : (i < length s)%nat -> nth i (upd s i f) dflt = f (nth i s dflt).
Proof. revert i; induction s as [|l r IH]; intros [|j] H; simpl in *; try lia; auto. apply IH; lia. Qed.
Lemma nth_upd_other s i j f : i <> j -> nth i (upd s j f) dflt = nth i s dflt.
Proof. revert i j; induction s as [|l r IH]; intros [|i] [|j] H; simpl; auto; try congruence. Qed.

Definition act_link (a : act) : nat := fst (target a).

Lemma run_act_length s a : length (run_act s a) = length s.
Proof. destruct a as [i [|] v|i v]; simpl; apply upd_length. Qed.
Lemma run_acts_length L s : length (fold_left run_act L s) = length s.
Proof. revert s; induction L as [|a L IH]; intros s; simpl; auto. rewrite IH. apply run_act_length. Qed.

Lemma kind_run_act s a i : lkind (nth i (run_act s a) dflt) = lkind (nth i s dflt).
Proof.
  destruct (Nat.eq_dec i (act_link a)) as [E|N].
  - destruct (lt_dec i (length s)) as [Hl|Hl].
    + destruct a as [j [|] v|j v]; simpl in *; subst; rewrite nth_upd_same by exact Hl; reflexivity.
    + rewrite !nth_overflow; auto; try lia. rewrite run_act_length; lia.
  - destruct a as [j [|] v|j v]; simpl in *; rewrite nth_upd_other by exact N; reflexivity.
Qed.

(* an action changes the value of its own target only *)
Lemma get_run_act_other s a i at_ : target a <> (i, at_) -> get (run_act s a) i at_ = get s i at_.
Proof.
  intros N. unfold get.
  destruct a as [j [|] v|j v]; simpl in *.
  - destruct (Nat.eq_dec i j) as [E|Ne]; [subst|rewrite nth_upd_other by exact Ne; reflexivity].
    destruct at_; [congruence|]. destruct (lt_dec j (length s)) as [Hl|Hl].
    + rewrite nth_upd_same by exact Hl. reflexivity.
    + rewrite !nth_overflow; auto; try lia. rewrite upd_length; lia.
  - destruct (Nat.eq_dec i j) as [E|Ne]; [subst|rewrite nth_upd_other by exact Ne; reflexivity].
    destruct at_; [|congruence]. destruct (lt_dec j (length s)) as [Hl|Hl].
    + rewrite nth_upd_same by exact Hl. reflexivity.
    + rewrite !nth_overflow; auto; try lia. rewrite upd_length; lia.
  - destruct (Nat.eq_dec i j) as [E|Ne]; [subst|rewrite nth_upd_other by exact Ne; reflexivity].
    destruct at_; [congruence|]. destruct (lt_dec j (length s)) as [Hl|Hl].
    + rewrite nth_upd_same by exact Hl. reflexivity.
    + rewrite !nth_overflow; auto; try lia. rewrite upd_length; lia.
Qed.

(* ---- the user status after a sequence of actions is that of the last user status action on the link ---- *)
Fixpoint last_user (i : nat) (L : list act) (d : Z) : Z :=
  match L with
  | [] => d
  | UserA j Status v :: r => if Nat.eqb i j then last_user i r v else last_user i r d
  | _ :: r => last_user i r d
  end.
Lemma user_after s L i : (i < length s)%nat ->
  luser (nth i (fold_left run_act L s) dflt) = last_user i L (luser (nth i s dflt)).
Proof.
  revert s; induction L as [|a L IH]; intros s Hl; simpl; auto.
  rewrite IH by (rewrite run_act_length; exact Hl).
  destruct a as [j [|] v|j v]; simpl.
  - destruct (Nat.eqb_spec i j) as [E|N].
    + subst. rewrite nth_upd_same by exact Hl. reflexivity.
    + rewrite nth_upd_other by exact N. reflexivity.
  - destruct (Nat.eq_dec i j) as [E|N]; [subst; rewrite nth_upd_same by exact Hl|rewrite nth_upd_other by exact N]; reflexivity.
  - destruct (Nat.eq_dec i j) as [E|N]; [subst; rewrite nth_upd_same by exact Hl|rewrite nth_upd_other by exact N]; reflexivity.
Qed.
Lemma last_user_cases i L d :
  last_user i L d = d \/ exists L1 v L2, L = L1 ++ UserA i Status v :: L2 /\ last_user i L d = v.
Proof.
  revert d; induction L as [|a L IH]; intros d; simpl; auto.
  destruct a as [j [|] v|j v].
  - destruct (Nat.eqb_spec i j) as [E|N].
    + subst. destruct (IH v) as [H|(L1 & w & L2 & E & H)].
      * right. exists [], v, L. split; auto.
      * right. exists (UserA j Status v :: L1), w, L2. split; [simpl; congruence|exact H].
    + destruct (IH d) as [H|(L1 & w & L2 & E & H)]; auto. right. exists (UserA j Status v :: L1), w, L2. split; [simpl; congruence|exact H].
  - destruct (IH d) as [H|(L1 & w & L2 & E & H)]; auto. right. exists (UserA j Setting v :: L1), w, L2. split; [simpl; congruence|exact H].
  - destruct (IH d) as [H|(L1 & w & L2 & E & H)]; auto. right. exists (InternalA j v :: L1), w, L2. split; [simpl; congruence|exact H].
Qed.
Lemma last_user_app i L1 L2 d : last_user i (L1 ++ L2) d = last_user i L2 (last_user i L1 d).
Proof.
  revert d; induction L1 as [|a L IH]; intros d; simpl; auto.
  destruct a as [j [|] v|j v]; auto. destruct (Nat.eqb i j); auto.
Qed.

(* ---- stable ascending sort ---- *)
Definition sortedp := Sorted (fun a b => prio a <= prio b).
Lemma insert_perm c l : Permutation (c :: l) (insert c l).
Proof.
  induction l as [|d r IH]; simpl; auto. destruct (prio c <? prio d); auto.
  eapply perm_trans; [apply perm_swap|]. apply perm_skip. exact IH.
Qed.
Lemma insert_hdrel a c l : prio a <= prio c -> HdRel (fun a b => prio a <= prio b) a l -> HdRel (fun a b => prio a <= prio b) a (insert c l).
Proof. intros H Hl. destruct l as [|d r]; simpl; [constructor; exact H|]. destruct (prio c <? prio d); constructor; auto. inversion Hl; auto. Qed.
Lemma insert_sorted c l : sortedp l -> sortedp (insert c l).
Proof.
  induction l as [|d r IH]; intros Hs; simpl.
  - constructor; constructor.
  - destruct (Z.ltb_spec (prio c) (prio d)) as [H|H].
    + constructor; [exact Hs|constructor; lia].
    + inversion Hs as [|? ? Hr Hd]; subst. constructor; [apply IH; exact Hr|]. apply insert_hdrel; [lia|exact Hd].
Qed.
Lemma sort_stable_spec_aux l acc : sortedp acc ->
  sortedp (fold_left (fun acc c => insert c acc) l acc) /\ Permutation (rev l ++ acc) (fold_left (fun acc c => insert c acc) l acc).
Proof.
  revert acc; induction l as [|c l IH]; intros acc Hs; simpl; [split; auto|].
  destruct (IH (insert c acc) (insert_sorted c acc Hs)) as [H1 H2]. split; [exact H1|].
  eapply perm_trans; [|exact H2]. rewrite <- app_assoc. simpl. apply Permutation_app_head. apply insert_perm.
Qed.
Lemma sort_stable_sorted l : sortedp (sort_stable l).
Proof. apply (sort_stable_spec_aux l []). constructor. Qed.
Lemma sort_stable_perm l : Permutation l (sort_stable l).
Proof.
  destruct (sort_stable_spec_aux l []) as [_ H]; [constructor|]. rewrite app_nil_r in H.
  eapply perm_trans; [apply Permutation_rev|exact H].
Qed.
Lemma sorted_after L1 c L2 : sortedp (L1 ++ c :: L2) -> forall c', In c' L2 -> prio c <= prio c'.
Proof.
  intros Hs. assert (Hss : StronglySorted (fun a b => prio a <= prio b) (L1 ++ c :: L2)).
  { apply Sorted_StronglySorted; [|exact Hs]. intros x y z; lia. }
  clear Hs. induction L1 as [|a L1 IH]; simpl in Hss.
  - inversion Hss as [|? ? _ Hf]; subst. intros c' Hin. rewrite Forall_forall in Hf. apply Hf; exact Hin.
  - inversion Hss; subst. apply IH; assumption.
Qed.

(* ---- a triggered user command holds after the controls ran, unless a triggered control of >= priority conflicts ---- *)
Definition internal_only (cs : list ctl) : Prop := forall c, In c cs -> exists i v, action c = InternalA i v.

Lemma last_user_internal i L d : (forall a, In a L -> exists j v, a = InternalA j v) -> last_user i L d = d.
Proof.
  induction L as [|a L IH]; intros H; simpl; auto.
  destruct (H a (or_introl eq_refl)) as (j & v & E); subst. apply IH. intros b Hb; apply H; right; exact Hb.
Qed.

Lemma run_controls_fst ref cs sc : fst (run_controls ref cs sc) = fold_left run_act (map action (sort_stable cs)) (fst sc).
Proof.
  unfold run_controls. generalize (map action (sort_stable cs)) as L. intros L; revert sc.
  induction L as [|a L IH]; intros sc; simpl; auto. rewrite IH. reflexivity.
Qed.

Lemma user_command_or_conflict cs c i v s : (i < length s)%nat -> In c cs -> action c = UserA i Status v ->
  let s' := fold_left run_act (map action (sort_stable cs)) s in
  luser (nth i s' dflt) = v \/
  exists c' v', In c' cs /\ prio c <= prio c' /\ action c' = UserA i Status v' /\ v' <> v /\ luser (nth i s' dflt) = v'.
Proof.
  intros Hl Hin Ha s'. unfold s'. rewrite user_after by exact Hl.
  assert (Hin' : In c (sort_stable cs)) by (eapply Permutation_in; [apply sort_stable_perm|exact Hin]).
  destruct (in_split _ _ Hin') as (L1 & L2 & E). rewrite E, map_app, last_user_app. simpl. rewrite Ha. simpl. rewrite Nat.eqb_refl.
  destruct (last_user_cases i (map action L2) v) as [H|(M1 & w & M2 & EM & H)]; [left; exact H|].
  destruct (Z.eq_dec w v) as [Ew|Nw]; [left; congruence|]. right.
  assert (Hc' : exists c', In c' L2 /\ action c' = UserA i Status w).
  { assert (Hi : In (UserA i Status w) (map action L2)) by (rewrite EM; apply in_or_app; right; left; reflexivity).
    apply in_map_iff in Hi. destruct Hi as (c' & E' & Hi). exists c'; auto. }
  destruct Hc' as (c' & Hc' & Ea'). exists c', w. repeat split; auto.
  - eapply Permutation_in; [apply Permutation_sym, sort_stable_perm|]. rewrite E. apply in_or_app; right; right; exact Hc'.
  - apply (sorted_after L1 c L2); [rewrite <- E; apply sort_stable_sorted|exact Hc'].
Qed.

Lemma user_implies_holds s i v : luser (nth i s dflt) = v -> holds_command s i v.
Proof.
  intros H. unfold holds_command. split; [exact H|]. unfold get, status_of. rewrite H.
  destruct (lkind (nth i s dflt)) eqn:K.
  - destruct (Z.eqb_spec (linternal (nth i s dflt)) CLOSED); [right; left; repeat split; auto; discriminate|left; reflexivity].
  - destruct (Z.eqb_spec (linternal (nth i s dflt)) CLOSED); [right; left; repeat split; auto; discriminate|left; reflexivity].
  - destruct (Z.eqb_spec v CLOSED); [left; congruence|]. destruct (Z.eqb_spec v OPEN); [left; congruence|].
    right; right. repeat split; auto.
Qed.

(* ---- the change tracker: after the controls ran, a touched target is in `changed` iff it differs from the reference ---- *)
Lemma tgt_eqb_eq x y : tgt_eqb x y = true <-> x = y.
Proof.
  destruct x as [i a], y as [j b]; unfold tgt_eqb; simpl. rewrite andb_true_iff, Nat.eqb_eq.
  split; [intros [H1 H2]; subst; destruct a, b; simpl in H2; congruence|intros H; inversion H; subst; split; auto; destruct b; reflexivity].
Qed.
Lemma mem_t_in x l : mem_t x l = true <-> In x l.
Proof.
  unfold mem_t. rewrite existsb_exists. split; [intros (y & H & E); apply tgt_eqb_eq in E; subst; exact H|intros H; exists x; split; auto; apply tgt_eqb_eq; reflexivity].
Qed.
Lemma remove_t_in x y l : In y (remove_t x l) <-> In y l /\ y <> x.
Proof.
  unfold remove_t. rewrite filter_In, negb_true_iff. split; intros [H1 H2]; split; auto.
  - intros E; subst. assert (tgt_eqb x x = true) by (apply tgt_eqb_eq; reflexivity). congruence.
  - destruct (tgt_eqb x y) eqn:E; auto. apply tgt_eqb_eq in E. congruence.
Qed.

Definition tracked (ref : nat -> attr -> Z) (touched : list (nat * attr)) (sc : state * list (nat * attr)) : Prop :=
  forall t, In t touched -> (In t (snd sc) <-> get (fst sc) (fst t) (snd t) <> ref (fst t) (snd t)).

Lemma step_tracked ref touched sc a : tracked ref touched sc -> tracked ref (target a :: touched) (step_act ref sc a).
Proof.
  intros Inv t Ht. unfold step_act, track; simpl.
  destruct (tgt_eqb (target a) t) eqn:Et.
  - apply tgt_eqb_eq in Et; subst t.
    destruct (Z.eqb_spec (get (run_act (fst sc) a) (fst (target a)) (snd (target a))) (ref (fst (target a)) (snd (target a)))) as [E|N].
    + rewrite remove_t_in. split; [intros [_ H]; congruence|intros H; congruence].
    + destruct (mem_t (target a) (snd sc)) eqn:M.
      * apply mem_t_in in M. split; auto.
      * split; auto. intros _. left; reflexivity.
  - assert (Nt : target a <> t) by (intros E; apply tgt_eqb_eq in E; congruence).
    destruct Ht as [Ht|Ht]; [congruence|].
    assert (G : get (run_act (fst sc) a) (fst t) (snd t) = get (fst sc) (fst t) (snd t)).
    { apply get_run_act_other. destruct t; simpl; exact Nt. }
    rewrite G.
    destruct (get (run_act (fst sc) a) (fst (target a)) (snd (target a)) =? ref (fst (target a)) (snd (target a))).
    + rewrite remove_t_in. rewrite <- (Inv t Ht). split; [intros [H _]; exact H|intros H; split; auto].
    + destruct (mem_t (target a) (snd sc)); [apply Inv; exact Ht|].
      rewrite <- (Inv t Ht). split; [intros [H|H]; [congruence|exact H]|intros H; right; exact H].
Qed.
Lemma tracked_weaken ref t1 t2 sc : (forall t, In t t2 -> In t t1) -> tracked ref t1 sc -> tracked ref t2 sc.
Proof. intros H Inv t Ht. apply Inv, H, Ht. Qed.
Lemma fold_tracked ref L touched sc : tracked ref touched sc ->
  tracked ref (rev (map target L) ++ touched) (fold_left (step_act ref) L sc) /\
  (forall t, ~ In t (map target L) -> get (fst (fold_left (step_act ref) L sc)) (fst t) (snd t) = get (fst sc) (fst t) (snd t)).
Proof.
  revert touched sc; induction L as [|a L IH]; intros touched sc Inv; simpl; [split; auto|].
  destruct (IH (target a :: touched) (step_act ref sc a) (step_tracked ref touched sc a Inv)) as [H1 H2]. split.
  - eapply tracked_weaken; [|exact H1]. intros t Ht. rewrite <- app_assoc in Ht. exact Ht.
  - intros t Ht. rewrite H2 by tauto. unfold step_act; simpl. apply get_run_act_other. destruct t; simpl. tauto.
Qed.

(* accepted (nothing in `changed`) => every public status / setting equals the one the hydraulics were solved with *)
Lemma tgt_dec (x y : nat * attr) : {x = y} + {x <> y}.
Proof. decide equality; [decide equality|apply Nat.eq_dec]. Qed.
Lemma accepted_unchanged post feas s : snd (after_solve (get s) post feas s) = [] ->
  forall i a, get (fst (after_solve (get s) post feas s)) i a = get s i a.
Proof.
  intros Hacc i a. unfold after_solve, run_controls in *.
  set (Lp := map action (sort_stable post)) in *. set (Lf := map action (sort_stable feas)) in *.
  rewrite <- fold_left_app in *.
  assert (Inv0 : tracked (get s) [] (s, [])) by (intros t []).
  destruct (fold_tracked (get s) (Lp ++ Lf) [] (s, []) Inv0) as [H1 H2].
  destruct (in_dec tgt_dec (i, a) (map target (Lp ++ Lf))) as [Hin|Hnin].
  - assert (Ht : In (i, a) (rev (map target (Lp ++ Lf)) ++ [])) by (rewrite app_nil_r, <- in_rev; exact Hin).
    specialize (H1 (i, a) Ht). simpl in H1. rewrite Hacc in H1.
    destruct (Z.eq_dec (get (fst (fold_left (step_act (get s)) (Lp ++ Lf) (s, []))) i a) (get s i a)) as [E|N]; [exact E|].
    exfalso. apply H1 in N. exact N.
  - apply (H2 (i, a) Hnin).
Qed.

(* ---- the statement for one accepted trial ---- *)
Lemma after_solve_fst ref post feas s :
  fst (after_solve ref post feas s) = fold_left run_act (map action (sort_stable feas)) (fold_left run_act (map action (sort_stable post)) s).
Proof. unfold after_solve. rewrite !run_controls_fst. reflexivity. Qed.

Lemma internal_only_actions feas : internal_only feas -> forall a, In a (map action (sort_stable feas)) -> exists j v, a = InternalA j v.
Proof.
  intros H a Ha. apply in_map_iff in Ha. destruct Ha as (c & E & Hc). subst. apply H.
  eapply Permutation_in; [apply Permutation_sym, sort_stable_perm|exact Hc].
Qed.

Definition conflict (post : list ctl) (c : ctl) (i : nat) (v : Z) (s' : state) : Prop :=
  exists c' v', In c' post /\ prio c <= prio c' /\ action c' = UserA i Status v' /\ v' <> v /\ holds_command s' i v'.

Theorem accepted_consistent post feas s c i v :
  (i < length s)%nat -> internal_only feas -> In c post -> action c = UserA i Status v ->
  let s' := fst (after_solve (get s) post feas s) in
  holds_command s' i v \/ conflict post c i v s'.
Proof.
  intros Hl Hf Hin Ha s'. unfold s'. rewrite after_solve_fst.
  set (s1 := fold_left run_act (map action (sort_stable post)) s).
  assert (Hu : luser (nth i (fold_left run_act (map action (sort_stable feas)) s1) dflt) = luser (nth i s1 dflt)).
  { rewrite user_after by (unfold s1; rewrite run_acts_length; exact Hl). apply last_user_internal. apply internal_only_actions; exact Hf. }
  pose proof (user_command_or_conflict post c i v s Hl Hin Ha) as HH. cbv zeta in HH. change (fold_left run_act (map action (sort_stable post)) s) with s1 in HH.
  destruct HH as [H|(c' & v' & H1 & H2 & H3 & H4 & H5)].
  - left. apply user_implies_holds. rewrite Hu. exact H.
  - right. exists c', v'. repeat split; auto; try (rewrite Hu; exact H5).
    destruct (user_implies_holds (fold_left run_act (map action (sort_stable feas)) s1) i v' (eq_trans Hu H5)) as [Q1 Q2]; exact Q2.
Qed.

(* setting commands: same argument on lsetting *)
Fixpoint last_setting (i : nat) (L : list act) (d : Z) : Z :=
  match L with
  | [] => d
  | UserA j Setting v :: r => if Nat.eqb i j then last_setting i r v else last_setting i r d
  | _ :: r => last_setting i r d
  end.
Lemma setting_after s L i : (i < length s)%nat ->
  lsetting (nth i (fold_left run_act L s) dflt) = last_setting i L (lsetting (nth i s dflt)).
Proof.
  revert s; induction L as [|a L IH]; intros s Hl; simpl; auto.
  rewrite IH by (rewrite run_act_length; exact Hl).
  destruct a as [j [|] v|j v]; simpl.
  - destruct (Nat.eq_dec i j) as [E|N]; [subst; rewrite nth_upd_same by exact Hl|rewrite nth_upd_other by exact N]; reflexivity.
  - destruct (Nat.eqb_spec i j) as [E|N].
    + subst. rewrite nth_upd_same by exact Hl. reflexivity.
    + rewrite nth_upd_other by exact N. reflexivity.
  - destruct (Nat.eq_dec i j) as [E|N]; [subst; rewrite nth_upd_same by exact Hl|rewrite nth_upd_other by exact N]; reflexivity.
Qed.
Lemma last_setting_cases i L d :
  last_setting i L d = d \/ exists L1 v L2, L = L1 ++ UserA i Setting v :: L2 /\ last_setting i L d = v.
Proof.
  revert d; induction L as [|a L IH]; intros d; simpl; auto.
  destruct a as [j [|] v|j v].
  - destruct (IH d) as [H|(L1 & w & L2 & E & H)]; auto. right. exists (UserA j Status v :: L1), w, L2. split; [simpl; congruence|exact H].
  - destruct (Nat.eqb_spec i j) as [E|N].
    + subst. destruct (IH v) as [H|(L1 & w & L2 & E & H)].
      * right. exists [], v, L. split; auto.
      * right. exists (UserA j Setting v :: L1), w, L2. split; [simpl; congruence|exact H].
    + destruct (IH d) as [H|(L1 & w & L2 & E & H)]; auto. right. exists (UserA j Setting v :: L1), w, L2. split; [simpl; congruence|exact H].
  - destruct (IH d) as [H|(L1 & w & L2 & E & H)]; auto. right. exists (InternalA j v :: L1), w, L2. split; [simpl; congruence|exact H].
Qed.
Lemma last_setting_app i L1 L2 d : last_setting i (L1 ++ L2) d = last_setting i L2 (last_setting i L1 d).
Proof.
  revert d; induction L1 as [|a L IH]; intros d; simpl; auto.
  destruct a as [j [|] v|j v]; auto. destruct (Nat.eqb i j); auto.
Qed.
Lemma last_setting_internal i L d : (forall a, In a L -> exists j v, a = InternalA j v) -> last_setting i L d = d.
Proof.
  induction L as [|a L IH]; intros H; simpl; auto.
  destruct (H a (or_introl eq_refl)) as (j & v & E); subst. apply IH. intros b Hb; apply H; right; exact Hb.
Qed.
Theorem accepted_consistent_setting post feas s c i v :
  (i < length s)%nat -> internal_only feas -> In c post -> action c = UserA i Setting v ->
  let s' := fst (after_solve (get s) post feas s) in
  get s' i Setting = v \/
  exists c' v', In c' post /\ prio c <= prio c' /\ action c' = UserA i Setting v' /\ v' <> v /\ get s' i Setting = v'.
Proof.
  intros Hl Hf Hin Ha s'. unfold s', get. rewrite after_solve_fst.
  rewrite setting_after by (rewrite run_acts_length; exact Hl).
  rewrite last_setting_internal by (apply internal_only_actions; exact Hf).
  rewrite setting_after by exact Hl.
  assert (Hin' : In c (sort_stable post)) by (eapply Permutation_in; [apply sort_stable_perm|exact Hin]).
  destruct (in_split _ _ Hin') as (L1 & L2 & E). rewrite E, map_app, last_setting_app. simpl. rewrite Ha. simpl. rewrite Nat.eqb_refl.
  destruct (last_setting_cases i (map action L2) v) as [H|(M1 & w & M2 & EM & H)]; [left; exact H|].
  destruct (Z.eq_dec w v) as [Ew|Nw]; [left; congruence|]. right.
  assert (Hi : In (UserA i Setting w) (map action L2)) by (rewrite EM; apply in_or_app; right; left; reflexivity).
  apply in_map_iff in Hi. destruct Hi as (c' & Ea' & Hc'). exists c', w. repeat split; auto.
  - eapply Permutation_in; [apply Permutation_sym, sort_stable_perm|]. rewrite E. apply in_or_app; right; right; exact Hc'.
  - apply (sorted_after L1 c L2); [rewrite <- E; apply sort_stable_sorted|exact Hc'].
Qed.

(* ---- the whole trial loop: whatever the solver and the conditions do, an accepted state is a fixed point ---- *)
Lemma settle_accepted solve n s s' : settle solve n s = Accepted s' ->
  exists s0, let post := fst (solve s0) in let feas := snd (solve s0) in
    snd (after_solve (get s0) post feas s0) = [] /\ s' = fst (after_solve (get s0) post feas s0).
Proof.
  revert s; induction n as [|n IH]; intros s H; simpl in H; destruct (solve s) as [post feas] eqn:E.
  - destruct (snd (after_solve (get s) post feas s)) eqn:Ech; [|discriminate].
    inversion H; subst. exists s. rewrite E. simpl. split; auto.
  - destruct (snd (after_solve (get s) post feas s)) eqn:Ech.
    + inversion H; subst. exists s. rewrite E. simpl. split; auto.
    + apply IH in H. exact H.
Qed.

(* ---- a condition that first holds on the solved state forces another solve ---- *)
Fixpoint last_internal (i : nat) (L : list act) (d : Z) : Z :=
  match L with
  | [] => d
  | InternalA j v :: r => if Nat.eqb i j then last_internal i r v else last_internal i r d
  | _ :: r => last_internal i r d
  end.
Lemma internal_after s L i : (i < length s)%nat ->
  linternal (nth i (fold_left run_act L s) dflt) = last_internal i L (linternal (nth i s dflt)).
Proof.
  revert s; induction L as [|a L IH]; intros s Hl; simpl; auto.
  rewrite IH by (rewrite run_act_length; exact Hl).
  destruct a as [j [|] v|j v]; simpl.
  - destruct (Nat.eq_dec i j) as [E|N]; [subst; rewrite nth_upd_same by exact Hl|rewrite nth_upd_other by exact N]; reflexivity.
  - destruct (Nat.eq_dec i j) as [E|N]; [subst; rewrite nth_upd_same by exact Hl|rewrite nth_upd_other by exact N]; reflexivity.
  - destruct (Nat.eqb_spec i j) as [E|N].
    + subst. rewrite nth_upd_same by exact Hl. reflexivity.
    + rewrite nth_upd_other by exact N. reflexivity.
Qed.
Lemma last_internal_none i L d : (forall v, ~ In (InternalA i v) L) -> last_internal i L d = d.
Proof.
  induction L as [|a L IH]; intros H; simpl; auto.
  destruct a as [j [|] v|j v]; try (apply IH; intros w Hw; apply (H w); right; exact Hw).
  destruct (Nat.eqb_spec i j) as [E|N]; [subst; exfalso; apply (H v); left; reflexivity|].
  apply IH; intros w Hw; apply (H w); right; exact Hw.
Qed.
Lemma kind_after s L i : lkind (nth i (fold_left run_act L s) dflt) = lkind (nth i s dflt).
Proof. revert s; induction L as [|a L IH]; intros s; simpl; auto. rewrite IH. apply kind_run_act. Qed.

Definition with_user (l : link) (v : Z) : link := {| lkind := lkind l; luser := v; linternal := linternal l; lsetting := lsetting l |}.

Theorem effect_forces_resolve post feas s c i v :
  (i < length s)%nat -> internal_only feas -> In c post -> action c = UserA i Status v ->
  (forall c' v', In c' post -> action c' = UserA i Status v' -> v' = v) ->           (* no conflicting command *)
  (forall c' w, In c' (post ++ feas) -> action c' <> InternalA i w) ->               (* the link's own rules are silent *)
  status_of (with_user (nth i s dflt) v) <> get s i Status ->                        (* the command changes the status *)
  accepted (get s) post feas s = false.
Proof.
  intros Hl Hf Hin Ha Hnc Hni Hch. unfold accepted.
  destruct (snd (after_solve (get s) post feas s)) eqn:Ech; [|reflexivity]. exfalso. apply Hch.
  rewrite <- (accepted_unchanged post feas s Ech i Status). unfold get. rewrite after_solve_fst.
  set (L := map action (sort_stable post)). set (F := map action (sort_stable feas)).
  rewrite <- fold_left_app. unfold status_of, with_user; simpl.
  rewrite kind_after, internal_after, user_after by exact Hl.
  assert (Hint : last_internal i (L ++ F) (linternal (nth i s dflt)) = linternal (nth i s dflt)).
  { apply last_internal_none. intros w Hw. unfold L, F in Hw. rewrite <- map_app in Hw. apply in_map_iff in Hw.
    destruct Hw as (c' & E' & Hc'). apply (Hni c' w); auto. apply in_app_or in Hc'. apply in_or_app.
    destruct Hc' as [Hc'|Hc']; [left|right]; (eapply Permutation_in; [apply Permutation_sym, sort_stable_perm|exact Hc']). }
  rewrite Hint.
  assert (Hus : last_user i (L ++ F) (luser (nth i s dflt)) = v).
  { rewrite last_user_app. unfold F. rewrite last_user_internal by (apply internal_only_actions; exact Hf).
    pose proof (user_command_or_conflict post c i v s Hl Hin Ha) as H. simpl in H. rewrite user_after in H by exact Hl. fold L in H.
    destruct H as [H|(c' & v' & H1 & _ & H3 & H4 & _)]; [exact H|]. exfalso. apply H4. apply (Hnc c' v'); auto. }
  rewrite Hus. reflexivity.
Qed.
