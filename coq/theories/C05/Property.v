(* C05 -- property theorems only. *)
From Coq Require Import Reals ZArith List Bool.
From WNTRV Require Import C05.Model C05.Proofs C06.Model C05.Tank.
Import ListNotations.

(* A triggered simple control's command holds on the state that run_sim accepts and reports -- closed means closed, open means
   open unless the link's internal status (check valve, pump shut-off, tank at a limit) holds it closed -- the only other
   exception being a conflicting triggered control of equal or higher priority. *)
Theorem C05_accepted_consistent : forall post feas s c i v,
  (i < length s)%nat -> internal_only feas -> In c post -> action c = UserA i Status v ->
  let s' := fst (after_solve (get s) post feas s) in
  holds_command s' i v \/ conflict post c i v s'.
Proof. exact accepted_consistent. Qed.
Theorem C05_accepted_consistent_setting : forall post feas s c i v,
  (i < length s)%nat -> internal_only feas -> In c post -> action c = UserA i Setting v ->
  let s' := fst (after_solve (get s) post feas s) in
  get s' i Setting = v \/
  exists c' v', In c' post /\ (prio c <= prio c')%Z /\ action c' = UserA i Setting v' /\ v' <> v /\ get s' i Setting = v'.
Proof. exact accepted_consistent_setting. Qed.
(* the accepted (reported) statuses and settings are the ones the hydraulics were solved with *)
Theorem C05_accepted_state_is_solved_state : forall post feas s, snd (after_solve (get s) post feas s) = [] ->
  forall i a, get (fst (after_solve (get s) post feas s)) i a = get s i a.
Proof. exact accepted_unchanged. Qed.
(* for the whole trial loop, whatever the solver and the conditions do *)
Theorem C05_settle_accepted : forall solve n s s', settle solve n s = Accepted s' ->
  exists s0, let post := fst (solve s0) in let feas := snd (solve s0) in
    snd (after_solve (get s0) post feas s0) = [] /\ s' = fst (after_solve (get s0) post feas s0).
Proof. exact settle_accepted. Qed.
(* a condition that first holds on the solved state takes effect in that very step: the step cannot be accepted as solved *)
Theorem C05_effect_forces_resolve : forall post feas s c i v,
  (i < length s)%nat -> internal_only feas -> In c post -> action c = UserA i Status v ->
  (forall c' v', In c' post -> action c' = UserA i Status v' -> v' = v) ->
  (forall c' w, In c' (post ++ feas) -> action c' <> InternalA i w) ->
  status_of (with_user (nth i s dflt) v) <> get s i Status ->
  accepted (get s) post feas s = false.
Proof. exact effect_forces_resolve. Qed.
(* tank-level thresholds: the partial step lies inside the hydraulic step; the earlier of two crossings is served first *)
Theorem C05_backtrack_inside_step_rising : forall last thr d q (dt : Z),
  (0 < d)%R -> (0 < q)%R -> (0 < dt)%Z -> (last < thr)%R -> (thr <= level_after last q (IZR dt) d)%R ->
  let b := backtrack (level_after last q (IZR dt) d) thr d q in (0 <= b < dt)%Z.
Proof. exact backtrack_inside_step_rising. Qed.
Theorem C05_backtrack_inside_step_falling : forall last thr d q (dt : Z),
  (0 < d)%R -> (q < 0)%R -> (0 < dt)%Z -> (thr < last)%R -> (level_after last q (IZR dt) d <= thr)%R ->
  let b := backtrack (level_after last q (IZR dt) d) thr d q in (0 <= b < dt)%Z.
Proof. exact backtrack_inside_step_falling. Qed.
Theorem C05_two_thresholds_rising : forall cur thr1 thr2 d q, (0 < d)%R -> (0 < q)%R -> (thr1 <= thr2)%R ->
  (backtrack cur thr2 d q <= backtrack cur thr1 d q)%Z.
Proof. exact two_thresholds_rising. Qed.
Theorem C05_two_thresholds_falling : forall cur thr1 thr2 d q, (0 < d)%R -> (q < 0)%R -> (thr1 <= thr2)%R ->
  (backtrack cur thr1 d q <= backtrack cur thr2 d q)%Z.
Proof. exact two_thresholds_falling. Qed.

(* non-vacuity: a pipe held closed by its internal status is commanded open by a triggered control (accepted, exception branch);
   two equal-priority controls conflict (the later registered wins); a command that changes the status is not accepted *)
Example ex_state : state := [ {| lkind := PipeK; luser := OPEN; linternal := CLOSED; lsetting := 0 |};
                              {| lkind := PipeK; luser := OPEN; linternal := OPEN; lsetting := 0 |} ].
Example ex_accept : accepted (get ex_state) [ {| prio := 3; action := UserA 0 Status OPEN |} ] [] ex_state = true.
Proof. vm_compute. reflexivity. Qed.
Example ex_conflict : fst (after_solve (get ex_state) [ {| prio := 3; action := UserA 1 Status CLOSED |}; {| prio := 3; action := UserA 1 Status OPEN |} ] [] ex_state) = ex_state.
Proof. vm_compute. reflexivity. Qed.
Example ex_resolve : accepted (get ex_state) [ {| prio := 3; action := UserA 1 Status CLOSED |} ] [] ex_state = false.
Proof. vm_compute. reflexivity. Qed.

Print Assumptions C05_accepted_consistent.
Print Assumptions C05_accepted_consistent_setting.
Print Assumptions C05_accepted_state_is_solved_state.
Print Assumptions C05_settle_accepted.
Print Assumptions C05_effect_forces_resolve.
Print Assumptions C05_backtrack_inside_step_rising.
Print Assumptions C05_backtrack_inside_step_falling.
Print Assumptions C05_two_thresholds_rising.
Print Assumptions C05_two_thresholds_falling.
