(* Lib/Codec -- the logic of WNTR's text codecs for times, clock times and rule conditions (numeric level: the
   decimal rendering of the integer fields is Python's str/int, trusted).
     _sec_to_string / _str_time_to_sec            (epanet/io.py)      [TIMES], simple controls
     _sec_to_clock / _parse_value                  (network/controls.py)  rule clock times   (after the hour-12 fix)
     _clock_time_to_sec                            (epanet/io.py)      START CLOCKTIME
     add_control_condition / generate_control      (epanet/io.py)      IF / AND / OR clause lists *)
From Coq Require Import ZArith List Bool.
Import ListNotations.
Local Open Scope Z_scope.

(* (hours, minutes, seconds) *)
Definition sec_to_hms (t : Z) : Z * Z * Z := (t / 3600, (t - (t / 3600) * 3600) / 60, (t - (t / 3600) * 3600) - ((t - (t / 3600) * 3600) / 60) * 60).
Definition hms_to_sec (x : Z * Z * Z) : Z := match x with (h, m, s) => h * 3600 + m * 60 + s end.

(* 12-hour clock: (hour 1..12, minutes, seconds, pm?) *)
Definition sec_to_clock (t : Z) : Z * Z * Z * bool :=
  let '(h, m, s) := sec_to_hms t in
  if 12 <=? h then ((if 12 <? h then h - 12 else h), m, s, true)
  else if h =? 0 then (12, m, s, false) else (h, m, s, false).
(* ControlCondition._parse_value on "h:mm:ss AM|PM" *)
Definition parse_clock (x : Z * Z * Z * bool) : Z :=
  match x with (h, m, s, pm) =>
    let h' := if h =? 12 then 0 else h in
    s + m * 60 + h' * 3600 + (if pm && (h' <? 12) then 43200 else 0)
  end.
(* epanet/io.py _clock_time_to_sec on "h:mm:ss" + AM/PM (12 o'clock hours start with "12") *)
Definition clock_time_to_sec (x : Z * Z * Z * bool) : Z :=
  match x with (h, m, s, pm) =>
    let t := h * 3600 + m * 60 + s in
    let t := if h =? 12 then t - 43200 else t in
    if pm then t + 43200 else t
  end.

(* _write_times: START CLOCKTIME is written with 0-based hours: hh:mm:ss AM (h < 12) or (h-12):mm:ss PM *)
Definition start_clock_fields (t : Z) : Z * Z * Z * bool :=
  let '(h, m, s) := sec_to_hms t in if h <? 12 then (h, m, s, false) else (h - 12, m, s, true).

(* rule conditions *)
Inductive ctree (A : Type) := Atom (a : A) | And (l r : ctree A) | Or (l r : ctree A).
Arguments Atom {A}. Arguments And {A}. Arguments Or {A}.
Inductive conj := KIf | KAnd | KOr.
Fixpoint print_cond {A} (prefix : conj) (t : ctree A) : list (conj * A) :=
  match t with
  | Atom a => [(prefix, a)]
  | And l r => print_cond prefix l ++ print_cond KAnd r
  | Or l r => print_cond prefix l ++ print_cond KOr r
  end.
(* generate_control: OR joins with the previous clause, the rest is AND-ed left to right *)
Fixpoint parse_clauses {A} (cl : list (conj * A)) (acc : list (ctree A)) : list (ctree A) :=
  match cl with
  | [] => acc
  | (KOr, a) :: r => match rev acc with
                     | last :: init => parse_clauses r (rev init ++ [Or last (Atom a)])
                     | [] => parse_clauses r [Atom a]          (* the code would fail on an undefined name; never printed *)
                     end
  | (_, a) :: r => parse_clauses r (acc ++ [Atom a])
  end.
Definition fold_and {A} (l : list (ctree A)) : option (ctree A) :=
  match l with [] => None | x :: r => Some (fold_left And r x) end.
Definition parse_cond {A} (cl : list (conj * A)) : option (ctree A) := fold_and (parse_clauses cl []).

Fixpoint sem {A} (v : A -> bool) (t : ctree A) : bool :=
  match t with Atom a => v a | And l r => sem v l && sem v r | Or l r => sem v l || sem v r end.
