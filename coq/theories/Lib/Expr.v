(* Lib/Expr -- the algebraic-modelling expression language of wntr/sim/aml:
   trees, RPN compilation (expr.py get_rpn) and the stack machine of
   evaluator.cpp (_evaluate), generic in the value domain.  No proofs here
   (they are in Lib/ExprProofs.v) so the model stays runnable. *)
From Coq Require Import ZArith List Bool.
Import ListNotations.
Local Open Scope Z_scope.

Inductive uop := UNeg | UAbs | USign | UExp | ULog | USin | UCos | UTan | UAsin | UAcos | UAtan.
Inductive bop := BAdd | BSub | BMul | BDiv | BPow.

(* leaves are identified by an arbitrary type L (Var / Param / Float objects) *)
Inductive expr (L : Type) :=
  | ELeaf (l : L)
  | EUn (o : uop) (a : expr L)
  | EBin (o : bop) (a b : expr L)
  | EIneq (body lb ub : expr L)
  | EIf (c t e : expr L).
Arguments ELeaf {L}. Arguments EUn {L}. Arguments EBin {L}. Arguments EIneq {L}. Arguments EIf {L}.

(* OperationEnum of expr.py == the constants of evaluator.hpp *)
Definition ucode (o : uop) : Z :=
  match o with
  | UAbs => -6 | USign => -7 | UExp => -10 | ULog => -11 | UNeg => -12
  | USin => -13 | UCos => -14 | UTan => -15 | UAsin => -16 | UAcos => -17 | UAtan => -18
  end.
Definition bcode (o : bop) : Z :=
  match o with BAdd => -1 | BSub => -2 | BMul => -3 | BDiv => -4 | BPow => -5 end.
Definition code_if : Z := -8.
Definition code_ineq : Z := -9.

Definition uop_of_code (c : Z) : option uop :=
  match c with
  | -6 => Some UAbs | -7 => Some USign | -10 => Some UExp | -11 => Some ULog | -12 => Some UNeg
  | -13 => Some USin | -14 => Some UCos | -15 => Some UTan | -16 => Some UAsin | -17 => Some UAcos
  | -18 => Some UAtan | _ => None
  end.
Definition bop_of_code (c : Z) : option bop :=
  match c with
  | -1 => Some BAdd | -2 => Some BSub | -3 => Some BMul | -4 => Some BDiv | -5 => Some BPow | _ => None
  end.

Section Generic.
  Context {L V : Type}.
  (* semantics of the operations in the value domain *)
  Variable usem : uop -> V -> V.
  Variable bsem : bop -> V -> V -> V.
  Variable ineq_sem : V -> V -> V -> V.     (* body lb ub -> 1 or 0 *)
  Variable if_sem : V -> V -> V -> V.       (* cond then else : then iff cond == 1 *)
  Variable leafval : L -> V.

  Fixpoint eval (e : expr L) : V :=
    match e with
    | ELeaf l => leafval l
    | EUn o a => usem o (eval a)
    | EBin o a b => bsem o (eval a) (eval b)
    | EIneq b lo hi => ineq_sem (eval b) (eval lo) (eval hi)
    | EIf c t f => if_sem (eval c) (eval t) (eval f)
    end.

  (* get_rpn: post-order, operands left to right *)
  Variable ndx : L -> Z.
  Fixpoint rpn (e : expr L) : list Z :=
    match e with
    | ELeaf l => [ndx l]
    | EUn o a => rpn a ++ [ucode o]
    | EBin o a b => rpn a ++ rpn b ++ [bcode o]
    | EIneq b lo hi => rpn b ++ rpn lo ++ rpn hi ++ [code_ineq]
    | EIf c t f => rpn c ++ rpn t ++ rpn f ++ [code_if]
    end.

  (* evaluator.cpp _evaluate: values : leaf index -> value; None = the C++ code
     would read below the stack / throw "Operation not recognized" *)
  Variable values : Z -> V.
  Definition step (stk : list V) (t : Z) : option (list V) :=
    if 0 <=? t then Some (values t :: stk)
    else match bop_of_code t with
    | Some o => match stk with a2 :: a1 :: r => Some (bsem o a1 a2 :: r) | _ => None end
    | None =>
      match uop_of_code t with
      | Some o => match stk with a :: r => Some (usem o a :: r) | _ => None end
      | None =>
        if t =? code_if then
          match stk with a2 :: a1 :: a :: r => Some (if_sem a a1 a2 :: r) | _ => None end
        else if t =? code_ineq then
          match stk with a2 :: a1 :: a :: r => Some (ineq_sem a a1 a2 :: r) | _ => None end
        else None
      end
    end.
  Fixpoint run (ts : list Z) (stk : list V) : option (list V) :=
    match ts with
    | [] => Some stk
    | t :: r => match step stk t with Some s => run r s | None => None end
    end.
  Definition exec (ts : list Z) : option V :=
    match run ts [] with Some (v :: _) => Some v | _ => None end.

  Fixpoint leaves (e : expr L) : list L :=
    match e with
    | ELeaf l => [l]
    | EUn _ a => leaves a
    | EBin _ a b => leaves a ++ leaves b
    | EIneq b lo hi => leaves b ++ leaves lo ++ leaves hi
    | EIf c t f => leaves c ++ leaves t ++ leaves f
    end.
End Generic.

(* structural equality (for T2 comparisons of dumped implementation trees) *)
Definition uop_eqb (a b : uop) : bool := ucode a =? ucode b.
Definition bop_eqb (a b : bop) : bool := bcode a =? bcode b.
Fixpoint expr_eqb {L} (leq : L -> L -> bool) (a b : expr L) : bool :=
  match a, b with
  | ELeaf x, ELeaf y => leq x y
  | EUn o x, EUn o' y => uop_eqb o o' && expr_eqb leq x y
  | EBin o x1 x2, EBin o' y1 y2 => bop_eqb o o' && expr_eqb leq x1 y1 && expr_eqb leq x2 y2
  | EIneq x1 x2 x3, EIneq y1 y2 y3 => expr_eqb leq x1 y1 && expr_eqb leq x2 y2 && expr_eqb leq x3 y3
  | EIf x1 x2 x3, EIf y1 y2 y3 => expr_eqb leq x1 y1 && expr_eqb leq x2 y2 && expr_eqb leq x3 y3
  | _, _ => false
  end.
