(* Lib/Spline -- facts about the smoothing cubic computed by wntr/utils/polynomial_interpolation.py cubic_spline
   (the definition is regenerated from the source: Gen/Formulas.v).  P interpolates values and slopes at both ends. *)
From Coq Require Import Reals Lra.
From WNTRV Require Import Lib.ExprR Gen.Formulas.
Local Open Scope R_scope.

Definition poly (k : R * R * R * R) (x : R) : R := let '(a, b, c, d) := k in a * x ^ 3 + b * x ^ 2 + c * x + d.
Definition dpoly (k : R * R * R * R) (x : R) : R := let '(a, b, c, d) := k in 3 * a * x ^ 2 + 2 * b * x + c.

Lemma cube_diff_nz x1 x2 : x1 <> x2 -> x2 ^ 3 - x1 ^ 3 + 3 * x1 * x2 * (x1 - x2) <> 0.
Proof.
  intro H. replace (x2 ^ 3 - x1 ^ 3 + 3 * x1 * x2 * (x1 - x2)) with ((x2 - x1) ^ 3) by ring.
  apply pow_nonzero. lra.
Qed.

Lemma spline_interpolates x1 x2 f1 f2 df1 df2 :
  x1 <> x2 ->
  let k := cubic_spline x1 x2 f1 f2 df1 df2 in
  poly k x1 = f1 /\ poly k x2 = f2 /\ dpoly k x1 = df1 /\ dpoly k x2 = df2.
Proof.
  intro H. pose proof (cube_diff_nz x1 x2 H) as Hc. assert (Hd : x1 - x2 <> 0) by lra.
  unfold cubic_spline, poly, dpoly. cbv zeta.
  repeat split; field; repeat split; try exact Hc; try lra.
Qed.
