(* Lib/Sched -- integer-time model of WNTRSimulator's time stepping for time-driven controls and rules:
   SimTimeCondition.evaluate, TimeOfDayCondition.evaluate (literally, including what the current code does for
   daily clock-time conditions), ControlChecker.check, the two stable sorts, the presolve/rule loop of
   _compute_next_timestep_and_run_presolve_controls_and_rules and the outer loop of run_sim.
   The hydraulic solve cannot influence a pure time condition, so it does not appear.  Executable; no proofs here. *)
From Coq Require Import ZArith List Bool.
Import ListNotations.
Local Open Scope Z_scope.

Inductive rel := Req | Rgt | Rge | Rlt | Rle.
Inductive tcond :=
  | CSim (r : rel) (thr : Z) (repeat : Z)                     (* repeat = 0: none *)
  | CClock (r : rel) (thr : Z) (repeat : bool) (first_day : Z)
  | CAnd (a b : tcond)
  | COr (a b : tcond).

(* evaluate -> (truth value, _backtrack) *)
Definition eval_sim (r : rel) (thr repeat cur0 prev0 : Z) : bool * Z :=
  let wrap := (0 <? repeat) && (thr <? cur0) in
  let cur := if wrap then (cur0 - thr) mod repeat else cur0 in
  let prev := if wrap then (prev0 - thr) mod repeat else prev0 in
  match r with
  | Req => if (prev <? thr) && (thr <=? cur) then (true, cur - thr) else (false, 0)
  | Rgt => if thr <? cur then (true, 0) else (false, 0)
  | Rge => if thr <=? cur then (if prev <? thr then (true, cur - thr) else (true, 0)) else (false, 0)
  | Rlt => if cur <? thr then (true, 0) else (false, 0)
  | Rle => if cur <=? thr then (true, 0) else if prev <? thr then (true, cur - thr) else (false, 0)
  end.

Definition eval_clock (r : rel) (thr : Z) (repeat : bool) (first_day start_clock cur0 prev0 : Z) : bool * Z :=
  (* TimeOfDayCondition.__init__: a once-only condition whose threshold precedes start_clocktime starts on day 1 *)
  let first_day := if negb repeat && (thr <? start_clock) && (first_day <? 1) then 1 else first_day in
  let cs := cur0 + start_clock in
  let ps := prev0 + start_clock in
  if cs / 86400 <? first_day then (false, 0)
  else
    let cur := if repeat then (cs - thr) mod 86400 else cs - first_day * 86400 in
    let prev := if repeat then (ps - thr) mod 86400 else ps - first_day * 86400 in
    match r with
    | Req => if (prev <? thr) && (thr <=? cur) then (true, cur - thr) else (false, 0)
    | Rgt => if thr <=? cur then (if prev <? thr then (true, cur - thr) else (true, 0)) else (false, 0)
    | _ => (false, 0)        (* 'before' (lt) returns False in every branch of the code; ge/le fall to the else branch *)
    end.

(* bool(cond): And / Or short-circuit like Python; backtrack: min / max (not used for rules) *)
Fixpoint eval_cond (start_clock cur prev : Z) (c : tcond) : bool * Z :=
  match c with
  | CSim r thr rep => eval_sim r thr rep cur prev
  | CClock r thr rep fd => eval_clock r thr rep fd start_clock cur prev
  | CAnd a b => let '(va, ba) := eval_cond start_clock cur prev a in
                if va then let '(vb, bb) := eval_cond start_clock cur prev b in (vb, Z.min ba bb) else (false, ba)
  | COr a b => let '(va, ba) := eval_cond start_clock cur prev a in
               if va then (true, ba) else let '(vb, bb) := eval_cond start_clock cur prev b in (vb, Z.max ba bb)
  end.

(* actions: set the (user) status of link number l *)
Definition action := (nat * bool)%type.
Record control := { c_cond : tcond; c_prio : Z; c_act : action }.                 (* simple presolve control *)
Record rule := { r_cond : tcond; r_prio : Z; r_then : list action; r_else : list action }.

Fixpoint set_nth (l : list bool) (n : nat) (v : bool) : list bool :=
  match l, n with
  | [], _ => []
  | _ :: r, O => v :: r
  | x :: r, S k => x :: set_nth r k v
  end.
Definition run_actions (acts : list action) (st : list bool) : list bool :=
  fold_left (fun s a => set_nth s (fst a) (snd a)) acts st.
Fixpoint list_beq (a b : list bool) : bool :=
  match a, b with
  | [], [] => true
  | x :: r, y :: s => Bool.eqb x y && list_beq r s
  | _, _ => false
  end.

(* stable insertion sorts, as Python's list.sort *)
Section Sort.
  Context {A : Type}.
  Variable le : A -> A -> bool.       (* "may stay before" *)
  Fixpoint insert_stable (x : A) (l : list A) : list A :=
    match l with
    | [] => [x]
    | y :: r => if le y x then y :: insert_stable x r else x :: y :: r
    end.
  (* fold from the left so that equal keys keep their original order *)
  Definition sort_stable (l : list A) : list A := fold_left (fun acc x => insert_stable x acc) l [].
End Sort.

(* ControlChecker.check for the presolve controls: (control, backtrack) of those whose condition is true *)
Definition check_controls (sc cur prev : Z) (cs : list control) : list (control * Z) :=
  flat_map (fun c => let '(v, b) := eval_cond sc cur prev (c_cond c) in if v then [(c, b)] else []) cs.
(* rules.check(): 'then' when true, 'else' when false and else-actions exist *)
Definition check_rules (sc cur prev : Z) (rs : list rule) : list (rule * bool) :=
  flat_map (fun r => let '(v, _) := eval_cond sc cur prev (r_cond r) in
                     if v then [(r, true)] else match r_else r with [] => [] | _ => [(r, false)] end) rs.
Definition run_rules (sc cur prev : Z) (rs : list rule) (st : list bool) : list bool :=
  let todo := sort_stable (fun a b : (rule * bool)%type => Z.leb (r_prio (fst a)) (r_prio (fst b))) (check_rules sc cur prev rs) in
  fold_left (fun (s : list bool) (rw : (rule * bool)%type) => run_actions (if snd rw then r_then (fst rw) else r_else (fst rw)) s) todo st.

(* run L[cnt] and every following entry with the same backtrack; returns (new state, new cnt) *)
Fixpoint run_same_backtrack (L : list (control * Z)) (b : Z) (st : list bool) (cnt : nat) : list bool * nat :=
  match L with
  | [] => (st, cnt)
  | (c, b') :: r => if b' =? b then run_same_backtrack r b (run_actions [c_act c] st) (S cnt) else (st, cnt)
  end.

Record cfg := { hyd_step : Z; rule_step : Z; duration : Z; start_clock : Z;
                controls : list control; rules : list rule; init_status : list bool }.

(* the while-loop of _compute_next_timestep_and_run_presolve_controls_and_rules.
   state: sim_time t, rule_iter ri, statuses st, position cnt in L.  fuel bounds the iterations. *)
Fixpoint presolve_loop (fuel : nat) (g : cfg) (prev : Z) (ref : list bool) (L : list (control * Z))
         (cnt : nat) (t ri : Z) (st : list bool) : option (Z * Z * list bool) :=
  match fuel with
  | O => None
  | S fuel' =>
    let rs := rule_step g in
    let sc := start_clock g in
    let rest := skipn cnt L in
    if negb (Nat.ltb cnt (length L)) && negb (ri * rs <=? t) then Some (t, ri, st)
    else
      let only_rules :=
        (* run the rules at the next rule instant; keep that instant if something changed *)
        let t' := ri * rs in
        let st' := run_rules sc t' prev (rules g) st in
        if negb (list_beq st' ref) then Some (t', ri + 1, st')
        else presolve_loop fuel' g prev ref L cnt t (ri + 1) st' in
      match rest with
      | [] => only_rules
      | (c, b) :: _ =>
        if t - b <? ri * rs then
          let '(st', cnt') := run_same_backtrack rest b st cnt in
          if negb (list_beq st' ref) then Some (t - b, ri, st')
          else presolve_loop fuel' g prev ref L cnt' t ri st'
        else if t - b =? ri * rs then
          let st1 := run_rules sc (t - b) prev (rules g) st in
          let '(st', cnt') := run_same_backtrack rest b st1 cnt in
          if negb (list_beq st' ref) then Some (t - b, ri + 1, st')
          else presolve_loop fuel' g prev ref L cnt' t (ri + 1) st'
        else only_rules
      end
  end.

Definition presolve (fuel : nat) (g : cfg) (first : bool) (prev t ri : Z) (st : list bool) : option (Z * Z * list bool) :=
  let L0 := check_controls (start_clock g) t prev (controls g) in
  let L1 := sort_stable (fun a b : (control * Z)%type => Z.leb (c_prio (fst a)) (c_prio (fst b))) L0 in      (* priority ascending *)
  let L2 := sort_stable (fun a b : (control * Z)%type => Z.leb (snd b) (snd a)) L1 in                        (* backtrack descending *)
  let L := if first then map (fun cb => (fst cb, 0)) L2 else L2 in
  presolve_loop fuel g prev st L 0 t ri st.

(* outer loop of run_sim with report_timestep = 'ALL': one entry (time, statuses) per solved step *)
Fixpoint run_loop (fuel : nat) (g : cfg) (first : bool) (prev t ri : Z) (st : list bool) : option (list (Z * list bool)) :=
  match fuel with
  | O => None
  | S fuel' =>
    match presolve (S (length (controls g)) + Z.to_nat (t / rule_step g) + 4) g first prev t ri st with
    | None => None
    | Some (t1, ri1, st1) =>
      let tnext := t1 + hyd_step g - ((t1 + hyd_step g) mod hyd_step g) in
      if duration g <? tnext then Some [(t1, st1)]
      else match run_loop fuel' g false t1 tnext ri1 st1 with
           | Some tr => Some ((t1, st1) :: tr)
           | None => None
           end
    end
  end.

Definition run (g : cfg) : option (list (Z * list bool)) :=
  run_loop (Z.to_nat (duration g / hyd_step g + duration g / rule_step g + 1) +
            (length (controls g) + 1) * (Z.to_nat (duration g / 86400) + 2) + 8)%nat g true (-1) 0 0 (init_status g).

(* ---- the run as an iteration of one solved step; pause / restart ----------------------------------------- *)
(* simulation state between two solved steps: first?, previous solved time, next grid time, rule index, statuses *)
Definition sstate := (bool * Z * Z * Z * list bool)%type.
Definition st_time (s : sstate) : Z := match s with (_, _, t, _, _) => t end.
Definition one_step (g : cfg) (s : sstate) : option ((Z * list bool) * sstate) :=
  match s with
  | (first, prev, t, ri, st) =>
    match presolve (S (length (controls g)) + Z.to_nat (t / rule_step g) + 4) g first prev t ri st with
    | None => None
    | Some (t1, ri1, st1) => Some ((t1, st1), (false, t1, t1 + hyd_step g - ((t1 + hyd_step g) mod hyd_step g), ri1, st1))
    end
  end.
(* run_sim: solve steps until the next grid time exceeds the duration D; returns the trace and the state left in the model *)
Fixpoint steps (fuel : nat) (g : cfg) (D : Z) (s : sstate) : option (list (Z * list bool) * sstate) :=
  match fuel with
  | O => None
  | S f =>
    match one_step g s with
    | None => None
    | Some (e, s') =>
      if D <? st_time s' then Some ([e], s')
      else match steps f g D s' with Some (tr, sf) => Some (e :: tr, sf) | None => None end
    end
  end.
Definition init_state (g : cfg) : sstate := (true, -1, 0, 0, init_status g).
(* a new simulator object continuing a paused model: first_step = False, rule index recomputed from the last solved time *)
Definition restart_state (g : cfg) (s : sstate) : sstate :=
  match s with (_, prev, t, _, st) => (false, prev, t, prev / rule_step g + 1, st) end.
