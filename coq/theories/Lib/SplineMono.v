(* Lib/SplineMono -- when the smoothing cubic of cubic_spline is monotone: the Fritsch-Carlson box.  With end slopes between 0 and three
   times the secant slope the derivative of the cubic is non-negative on the whole interval, hence the cubic is non-decreasing. *)
From Coq Require Import Reals Lra Lia.
From WNTRV Require Import Lib.ExprR Gen.Formulas Lib.Spline.
Local Open Scope R_scope.

(* exactness of Simpson's rule for cubics: no calculus needed to pass from the derivative to the increments *)
Lemma simpson k x y : poly k y - poly k x = (y - x) / 6 * (dpoly k x + 4 * dpoly k ((x + y) / 2) + dpoly k y).
Proof. destruct k as [[[a b] c] d]. unfold poly, dpoly. field. Qed.

(* the derivative of the interpolating cubic in Hermite form *)
Lemma dpoly_hermite x1 x2 f1 f2 df1 df2 t : x1 <> x2 ->
  dpoly (cubic_spline x1 x2 f1 f2 df1 df2) (x1 + t * (x2 - x1)) =
  6 * t * (1 - t) * ((f2 - f1) / (x2 - x1)) + (1 - t) * (1 - 3 * t) * df1 + t * (3 * t - 2) * df2.
Proof.
  intro H. pose proof (cube_diff_nz x1 x2 H) as Hc. unfold cubic_spline, dpoly. cbv zeta. field. repeat split; try exact Hc; lra.
Qed.

Lemma hermite_nonneg D m0 m1 t : 0 <= t <= 1 -> 0 <= m0 <= 3 * D -> 0 <= m1 <= 3 * D ->
  0 <= 6 * t * (1 - t) * D + (1 - t) * (1 - 3 * t) * m0 + t * (3 * t - 2) * m1.
Proof.
  intros Ht H0 H1. assert (HD : 0 <= D) by lra.
  destruct (Req_dec D 0) as [E|N].
  - assert (m0 = 0) by lra. assert (m1 = 0) by lra. subst. lra.
  - assert (HDp : 0 < D) by lra.
    set (a := m0 / (3 * D)). set (b := m1 / (3 * D)).
    assert (Ea : m0 = a * (3 * D)) by (unfold a; field; lra). assert (Eb : m1 = b * (3 * D)) by (unfold b; field; lra).
    assert (Ha : 0 <= a <= 1).
    { unfold a. split; [apply Rmult_le_pos; [lra|left; apply Rinv_0_lt_compat; lra]|]. apply (Rmult_le_reg_r (3 * D)); [lra|]. unfold Rdiv. rewrite Rmult_assoc, Rinv_l by lra. lra. }
    assert (Hb : 0 <= b <= 1).
    { unfold b. split; [apply Rmult_le_pos; [lra|left; apply Rinv_0_lt_compat; lra]|]. apply (Rmult_le_reg_r (3 * D)); [lra|]. unfold Rdiv. rewrite Rmult_assoc, Rinv_l by lra. lra. }
    rewrite Ea, Eb.
    (* bilinear in (a, b): a convex combination of the four corner polynomials, each a multiple of a square or of t (1 - t) *)
    replace (6 * t * (1 - t) * D + (1 - t) * (1 - 3 * t) * (a * (3 * D)) + t * (3 * t - 2) * (b * (3 * D)))
      with (D * ((1 - a) * (1 - b) * (6 * t * (1 - t)) + a * (1 - b) * (3 * (1 - t) * (1 - t)) + (1 - a) * b * (3 * t * t) + a * b * (3 * (1 - 2 * t) * (1 - 2 * t)))) by ring.
    apply Rmult_le_pos; [exact HD|].
    clearbody a b. destruct Ha as [Ha0 Ha1]. destruct Hb as [Hb0 Hb1]. destruct Ht as [Ht0 Ht1].
    assert (Q1 : 0 <= 1 - a) by lra. assert (Q2 : 0 <= 1 - b) by lra. assert (Q3 : 0 <= 1 - t) by lra.
    assert (P1 : 0 <= (1 - a) * (1 - b)) by (apply Rmult_le_pos; assumption).
    assert (P2 : 0 <= a * (1 - b)) by (apply Rmult_le_pos; assumption).
    assert (P3 : 0 <= (1 - a) * b) by (apply Rmult_le_pos; assumption).
    assert (P4 : 0 <= a * b) by (apply Rmult_le_pos; assumption).
    assert (S1 : 0 <= 6 * t * (1 - t)) by (apply Rmult_le_pos; lra).
    assert (S2 : 0 <= 3 * (1 - t) * (1 - t)) by (apply Rmult_le_pos; lra).
    assert (S3 : 0 <= 3 * t * t) by (apply Rmult_le_pos; lra).
    assert (S4 : 0 <= 3 * (1 - 2 * t) * (1 - 2 * t)) by (replace (3 * (1 - 2 * t) * (1 - 2 * t)) with (3 * ((1 - 2 * t) * (1 - 2 * t))) by ring; pose proof (Rle_0_sqr (1 - 2 * t)) as Hs; unfold Rsqr in Hs; lra).
    pose proof (Rmult_le_pos _ _ P1 S1). pose proof (Rmult_le_pos _ _ P2 S2). pose proof (Rmult_le_pos _ _ P3 S3). pose proof (Rmult_le_pos _ _ P4 S4).
    lra.
Qed.

Lemma spline_derivative_nonneg x1 x2 f1 f2 df1 df2 x : x1 < x2 ->
  0 <= df1 <= 3 * ((f2 - f1) / (x2 - x1)) -> 0 <= df2 <= 3 * ((f2 - f1) / (x2 - x1)) -> x1 <= x <= x2 ->
  0 <= dpoly (cubic_spline x1 x2 f1 f2 df1 df2) x.
Proof.
  intros Hx H1 H2 Hin. set (t := (x - x1) / (x2 - x1)).
  assert (Ex : x = x1 + t * (x2 - x1)) by (unfold t; field; lra).
  assert (Ht : 0 <= t <= 1).
  { unfold t. split; [apply Rmult_le_pos; [lra|left; apply Rinv_0_lt_compat; lra]|].
    apply (Rmult_le_reg_r (x2 - x1)); [lra|]. unfold Rdiv. rewrite Rmult_assoc, Rinv_l by lra. lra. }
  rewrite Ex, dpoly_hermite by lra. apply hermite_nonneg; assumption.
Qed.

Theorem spline_monotone x1 x2 f1 f2 df1 df2 x y : x1 < x2 ->
  0 <= df1 <= 3 * ((f2 - f1) / (x2 - x1)) -> 0 <= df2 <= 3 * ((f2 - f1) / (x2 - x1)) -> x1 <= x -> x <= y -> y <= x2 ->
  poly (cubic_spline x1 x2 f1 f2 df1 df2) x <= poly (cubic_spline x1 x2 f1 f2 df1 df2) y.
Proof.
  intros Hx H1 H2 Hlo Hxy Hhi.
  pose proof (simpson (cubic_spline x1 x2 f1 f2 df1 df2) x y) as S.
  pose proof (spline_derivative_nonneg x1 x2 f1 f2 df1 df2 x Hx H1 H2 ltac:(lra)) as D1.
  pose proof (spline_derivative_nonneg x1 x2 f1 f2 df1 df2 ((x + y) / 2) Hx H1 H2 ltac:(lra)) as D2.
  pose proof (spline_derivative_nonneg x1 x2 f1 f2 df1 df2 y Hx H1 H2 ltac:(lra)) as D3.
  assert (0 <= (y - x) / 6 * (dpoly (cubic_spline x1 x2 f1 f2 df1 df2) x + 4 * dpoly (cubic_spline x1 x2 f1 f2 df1 df2) ((x + y) / 2) + dpoly (cubic_spline x1 x2 f1 f2 df1 df2) y)).
  { apply Rmult_le_pos; lra. }
  lra.
Qed.
