(* The symbolic derivative D is the true partial derivative (Coquelicot is_derive),
   on the differentiability domain `diffable`. *)
From Coq Require Import Reals ZArith List Bool Lra Lia.
From Coquelicot Require Import Coquelicot.
From WNTRV Require Import Lib.Expr Lib.ExprR.
Import ListNotations.
Local Open Scope R_scope.

Definition upd (env : nat -> R) (v : nat) (x : R) : nat -> R := fun n => if Nat.eqb n v then x else env n.

Lemma evalR_ext env env' e : (forall n, env n = env' n) -> evalR env e = evalR env' e.
Proof.
  intro H. unfold evalR.
  induction e as [l|o a IHa|o a IHa b IHb|b IHb lo IHlo hi IHhi|c IHc t IHt f IHf]; cbn [eval].
  - destruct l; simpl; auto.
  - rewrite IHa; reflexivity.
  - rewrite IHa, IHb; reflexivity.
  - rewrite IHb, IHlo, IHhi; reflexivity.
  - rewrite IHc, IHt, IHf; reflexivity.
Qed.

Lemma upd_same env v : forall n, upd env v (env v) n = env n.
Proof. intro n. unfold upd. destruct (Nat.eqb_spec n v); subst; reflexivity. Qed.

Lemma evalR_upd_same env v e : evalR (upd env v (env v)) e = evalR env e.
Proof. apply evalR_ext, upd_same. Qed.

(* continuity helpers *)
Lemma locally_pos (f : R -> R) x df : is_derive f x df -> 0 < f x -> locally x (fun y => 0 < f y).
Proof.
  intros Hd Hp. assert (Hc : continuous f x) by (apply (ex_derive_continuous (K:=R_AbsRing) (V:=R_NormedModule) f x); exists df; exact Hd).
  apply (Hc (fun y => 0 < y)). apply (open_gt 0). exact Hp.
Qed.
Lemma locally_neg (f : R -> R) x df : is_derive f x df -> f x < 0 -> locally x (fun y => f y < 0).
Proof.
  intros Hd Hp. assert (Hc : continuous f x) by (apply (ex_derive_continuous (K:=R_AbsRing) (V:=R_NormedModule) f x); exists df; exact Hd).
  apply (Hc (fun y => y < 0)). apply (open_lt 0). exact Hp.
Qed.
Lemma locally_lt_c (f : R -> R) x df c : is_derive f x df -> f x < c -> locally x (fun y => f y < c).
Proof.
  intros Hd Hp. assert (Hc : continuous f x) by (apply (ex_derive_continuous (K:=R_AbsRing) (V:=R_NormedModule) f x); exists df; exact Hd).
  apply (Hc (fun y => y < c)). apply (open_lt c). exact Hp.
Qed.
Lemma locally_gt_c (f : R -> R) x df c : is_derive f x df -> c < f x -> locally x (fun y => c < f y).
Proof.
  intros Hd Hp. assert (Hc : continuous f x) by (apply (ex_derive_continuous (K:=R_AbsRing) (V:=R_NormedModule) f x); exists df; exact Hd).
  apply (Hc (fun y => c < y)). apply (open_gt c). exact Hp.
Qed.

Lemma is_derive_sgn (f : R -> R) x df :
  is_derive f x df -> f x <> 0 -> is_derive (fun y => sgn (f y)) x 0.
Proof.
  intros Hd Hn. destruct (Rlt_dec 0 (f x)) as [Hp|Hp].
  - apply (is_derive_ext_loc (fun _ => 1)); [|apply @is_derive_const].
    generalize (locally_pos f x df Hd Hp). apply filter_imp. intros y Hy. unfold sgn.
    destruct (Rle_dec 0 (f y)); [reflexivity|lra].
  - assert (Hneg : f x < 0) by lra.
    apply (is_derive_ext_loc (fun _ => -1)); [|apply @is_derive_const].
    generalize (locally_neg f x df Hd Hneg). apply filter_imp. intros y Hy. unfold sgn.
    destruct (Rle_dec 0 (f y)); [lra|reflexivity].
Qed.

Lemma is_derive_ineq (f : R -> R) x df lo hi :
  is_derive f x df -> f x <> lo -> f x <> hi -> is_derive (fun y => ineqR (f y) lo hi) x 0.
Proof.
  intros Hd Hlo Hhi.
  destruct (Rlt_dec (f x) lo) as [H1|H1].
  { apply (is_derive_ext_loc (fun _ => 0)); [|apply @is_derive_const].
    generalize (locally_lt_c f x df lo Hd H1). apply filter_imp. intros y Hy. unfold ineqR.
    destruct (Rle_dec lo (f y)); [lra|reflexivity]. }
  assert (Hgt : lo < f x) by lra.
  destruct (Rlt_dec hi (f x)) as [H2|H2].
  { apply (is_derive_ext_loc (fun _ => 0)); [|apply @is_derive_const].
    generalize (locally_gt_c f x df hi Hd H2). apply filter_imp. intros y Hy. unfold ineqR.
    destruct (Rle_dec lo (f y)); [|reflexivity]. destruct (Rle_dec (f y) hi); [lra|reflexivity]. }
  assert (Hlt : f x < hi) by lra.
  apply (is_derive_ext_loc (fun _ => 1)); [|apply @is_derive_const].
  generalize (filter_and _ _ (locally_gt_c f x df lo Hd Hgt) (locally_lt_c f x df hi Hd Hlt)).
  apply filter_imp. intros y [Hy1 Hy2]. unfold ineqR.
  destruct (Rle_dec lo (f y)); [|lra]. destruct (Rle_dec (f y) hi); [reflexivity|lra].
Qed.

(* x^y = exp (y ln x) for positive base, both arguments varying *)
Lemma is_derive_pw (f g : R -> R) x df dg :
  is_derive f x df -> is_derive g x dg -> 0 < f x ->
  is_derive (fun y => pw (f y) (g y)) x
            (df * g x * pw (f x) (g x - 1) + dg * pw (f x) (g x) * ln (f x)).
Proof.
  intros Hf Hg Hp.
  apply (is_derive_ext_loc (fun y => exp (g y * ln (f y)))).
  { generalize (locally_pos f x df Hf Hp). apply filter_imp. intros y Hy. unfold pw.
    destruct (Rlt_dec 0 (f y)); [reflexivity|lra]. }
  unfold pw. destruct (Rlt_dec 0 (f x)); [|lra]. unfold Rpower.
  evar_last.
  { apply is_derive_comp; [apply is_derive_exp|].
    apply (is_derive_mult g (fun y => ln (f y)) x dg (df / f x)); [exact Hg| |intros; apply Rmult_comm].
    apply (is_derive_comp ln f x (/ f x) df); [apply is_derive_ln; exact Hp|exact Hf]. }
  unfold plus, mult, scal; simpl; unfold mult; simpl.
  replace ((g x - 1) * ln (f x)) with (g x * ln (f x) - ln (f x)) by ring.
  replace (exp (g x * ln (f x) - ln (f x))) with (exp (g x * ln (f x)) / f x).
  { field. lra. }
  unfold Rminus. rewrite exp_plus, exp_Ropp, exp_ln by exact Hp. reflexivity.
Qed.

Lemma is_derive_pw_const (f : R -> R) x df c :
  is_derive f x df -> 0 < f x ->
  is_derive (fun y => pw (f y) c) x (df * c * pw (f x) (c - 1)).
Proof.
  intros Hf Hp.
  evar_last. { apply (is_derive_pw f (fun _ => c) x df 0 Hf); [apply @is_derive_const|exact Hp]. }
  unfold zero; simpl. ring.
Qed.

Lemma evalR_un env o a : evalR env (EUn o a) = usemR o (evalR env a). Proof. reflexivity. Qed.
Lemma evalR_bin env o a b : evalR env (EBin o a b) = bsemR o (evalR env a) (evalR env b). Proof. reflexivity. Qed.
Lemma evalR_cst env c : evalR env (cst c) = c. Proof. reflexivity. Qed.
Lemma evalR_ineq env b lo hi : evalR env (EIneq b lo hi) = ineqR (evalR env b) (evalR env lo) (evalR env hi).
Proof. reflexivity. Qed.

Section SD.
  Variable env : nat -> R.
  Variable v : nat.
  Notation F e := (fun x : R => evalR (upd env v x) e).

  Lemma F_at e : evalR (upd env v (env v)) e = evalR env e.
  Proof. apply evalR_upd_same. Qed.

  Lemma const_leaf_F e x : is_const_leaf e = true -> evalR (upd env v x) e = evalR env e.
  Proof. destruct e as [[n|c]| | | |]; simpl; try discriminate. reflexivity. Qed.

  Ltac simp_val := repeat (rewrite evalR_un || rewrite evalR_bin || rewrite evalR_cst); cbn [usemR bsemR].

  Theorem sd_correct e : diffable env e -> is_derive (F e) (env v) (evalR env (D v e)).
  Proof.
    induction e as [l|o a IHa|o a IHa b IHb|b IHb lo IHlo hi IHhi|c IHc t IHt f IHf]; intro Hd.
    - (* leaf *)
      destruct l as [n|c]; cbn [D].
      + unfold evalR, upd; cbn [eval leafR]. destruct (Nat.eqb_spec n v); cbn [cst eval leafR].
        * apply (is_derive_id (env v)).
        * apply @is_derive_const.
      + unfold evalR; cbn [eval leafR cst]. apply @is_derive_const.
    - (* unary *)
      destruct Hd as [Hda Ho]. specialize (IHa Hda).
      pose proof (F_at a) as Ea.
      apply (is_derive_ext (fun x => usemR o (F a x))); [intro; reflexivity|].
      destruct o; cbn [D usemR]; simp_val.
      + apply (is_derive_opp (F a)); exact IHa.
      + evar_last. { apply (is_derive_Rabs (F a)); [exact IHa|]. cbv beta. rewrite Ea. exact Ho. }
        cbv beta. rewrite Ea. unfold sgn, sign.
        destruct (Rle_dec 0 (evalR env a)) as [H|H];
          destruct (total_order_T 0 (evalR env a)) as [[H'|H']|H']; try lra.
      + apply (is_derive_sgn (F a) (env v) (evalR env (D v a)) IHa). cbv beta. rewrite Ea. exact Ho.
      + evar_last. { apply (is_derive_comp exp (F a)); [apply is_derive_exp|exact IHa]. }
        cbv beta. rewrite Ea. unfold scal; simpl; unfold mult; simpl. ring.
      + evar_last. { apply (is_derive_comp ln (F a)); [apply is_derive_ln|exact IHa].
                     cbv beta. rewrite Ea. exact Ho. }
        cbv beta. rewrite Ea. unfold scal; simpl; unfold mult; simpl. field. lra.
      + evar_last. { apply (is_derive_comp sin (F a)); [apply is_derive_sin|exact IHa]. }
        cbv beta. rewrite Ea. unfold scal; simpl; unfold mult; simpl. ring.
      + evar_last. { apply (is_derive_comp cos (F a)); [apply is_derive_cos|exact IHa]. }
        cbv beta. rewrite Ea. unfold scal; simpl; unfold mult; simpl. ring.
      + evar_last. { apply (is_derive_comp tan (F a)); [apply is_derive_tan|exact IHa].
                     cbv beta. rewrite Ea. exact Ho. }
        cbv beta. rewrite Ea. unfold scal; simpl; unfold mult; simpl.
        pose proof (sin2_cos2 (evalR env a)) as Hsc. unfold Rsqr in Hsc. unfold tan.
        set (cc := cos (evalR env a)) in *. set (ss := sin (evalR env a)) in *.
        replace (evalR env (D v a) / (cc * cc)) with (evalR env (D v a) * ((ss * ss + cc * cc) / (cc * cc)))
          by (rewrite Hsc; field; exact Ho).
        field. exact Ho.
      + contradiction.
      + contradiction.
      + evar_last. { apply (is_derive_comp atan (F a)); [apply is_derive_atan|exact IHa]. }
        cbv beta. rewrite Ea. unfold scal; simpl; unfold mult; simpl. unfold Rsqr. field.
        nra.
    - (* binary *)
      destruct Hd as [Hda [Hdb Ho]]. specialize (IHa Hda). specialize (IHb Hdb).
      pose proof (F_at a) as Ea. pose proof (F_at b) as Eb.
      apply (is_derive_ext (fun x => bsemR o (F a x) (F b x))); [intro; reflexivity|].
      destruct o; cbn [D bsemR].
      + simp_val. apply (is_derive_plus (F a) (F b)); assumption.
      + simp_val. apply (is_derive_minus (F a) (F b)); assumption.
      + simp_val.
        evar_last. { apply (is_derive_mult (F a) (F b)); [exact IHa|exact IHb|intros; apply Rmult_comm]. }
        cbv beta. rewrite Ea, Eb. unfold plus, mult; simpl. ring.
      + simp_val.
        evar_last. { apply (is_derive_div (F a) (F b)); [exact IHa|exact IHb|].
                     cbv beta. rewrite Eb. exact Ho. }
        cbv beta. rewrite Ea, Eb. field. exact Ho.
      + destruct (is_const_leaf b) eqn:Hc.
        * destruct b as [[n|c]| | | |]; try discriminate Hc.
          simp_val.
          evar_last. { apply (is_derive_pw_const (F a) (env v) (evalR env (D v a)) c IHa). cbv beta. rewrite Ea. exact Ho. }
          cbv beta. rewrite Ea. reflexivity.
        * simp_val.
          evar_last. { apply (is_derive_pw (F a) (F b) (env v) (evalR env (D v a)) (evalR env (D v b)) IHa IHb). cbv beta. rewrite Ea. exact Ho. }
          cbv beta. rewrite Ea, Eb. reflexivity.
    - (* inequality *)
      destruct Hd as [Hdb [Hlo [Hhi [H1 H2]]]]. specialize (IHb Hdb).
      cbn [D]. rewrite evalR_cst.
      pose proof (F_at b) as Eb.
      apply (is_derive_ext (fun x => ineqR (F b x) (evalR env lo) (evalR env hi))).
      { intro x. rewrite evalR_ineq. rewrite (const_leaf_F lo x Hlo), (const_leaf_F hi x Hhi). reflexivity. }
      apply (is_derive_ineq (F b) (env v) (evalR env (D v b)) _ _ IHb); cbv beta; rewrite Eb; assumption.
    - contradiction.
  Qed.
End SD.
