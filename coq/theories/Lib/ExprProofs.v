(* Compiler correctness of get_rpn w.r.t. the stack machine of evaluator.cpp,
   for every expression tree and every value domain. Axiom-free. *)
From Coq Require Import ZArith List Bool Lia.
From WNTRV Require Import Lib.Expr.
Import ListNotations.
Local Open Scope Z_scope.

Section Generic.
  Context {L V : Type}.
  Variable usem : uop -> V -> V.
  Variable bsem : bop -> V -> V -> V.
  Variable ineq_sem : V -> V -> V -> V.
  Variable if_sem : V -> V -> V -> V.
  Variable leafval : L -> V.
  Variable ndx : L -> Z.
  Variable values : Z -> V.

  Notation eval := (eval usem bsem ineq_sem if_sem leafval).
  Notation rpn := (rpn ndx).
  Notation step := (step usem bsem ineq_sem if_sem values).
  Notation run := (run usem bsem ineq_sem if_sem values).
  Notation exec := (exec usem bsem ineq_sem if_sem values).

  Lemma run_app ts1 ts2 stk :
    run (ts1 ++ ts2) stk = match run ts1 stk with Some s => run ts2 s | None => None end.
  Proof.
    revert stk; induction ts1 as [|t ts IH]; intro stk; cbn [app Expr.run]; [reflexivity|].
    destruct (step stk t); [apply IH|reflexivity].
  Qed.

  Lemma step_leaf stk i : 0 <= i -> step stk i = Some (values i :: stk).
  Proof. intro H. unfold Expr.step. destruct (Z.leb_spec 0 i); [reflexivity|lia]. Qed.
  Lemma step_bin stk o a1 a2 : step (a2 :: a1 :: stk) (bcode o) = Some (bsem o a1 a2 :: stk).
  Proof. destruct o; reflexivity. Qed.
  Lemma step_un stk o a : step (a :: stk) (ucode o) = Some (usem o a :: stk).
  Proof. destruct o; reflexivity. Qed.
  Lemma step_if stk a a1 a2 : step (a2 :: a1 :: a :: stk) code_if = Some (if_sem a a1 a2 :: stk).
  Proof. reflexivity. Qed.
  Lemma step_ineq stk a a1 a2 : step (a2 :: a1 :: a :: stk) code_ineq = Some (ineq_sem a a1 a2 :: stk).
  Proof. reflexivity. Qed.

  Hypothesis values_ok : forall l, values (ndx l) = leafval l.

  Lemma run_rpn e :
    (forall l, In l (leaves e) -> 0 <= ndx l) ->
    forall rest stk, run (rpn e ++ rest) stk = run rest (eval e :: stk).
  Proof.
    induction e as [l|o a IHa|o a IHa b IHb|b IHb lo IHlo hi IHhi|c IHc t IHt f IHf];
      intros Hl rest stk; cbn [Expr.rpn Expr.eval Expr.leaves] in *.
    - cbn [app Expr.run]. rewrite step_leaf by (apply Hl; left; reflexivity).
      rewrite values_ok. reflexivity.
    - rewrite <- app_assoc. rewrite IHa by assumption. cbn [app Expr.run]. rewrite step_un. reflexivity.
    - rewrite <- !app_assoc. rewrite IHa by (intros; apply Hl; apply in_or_app; auto).
      rewrite IHb by (intros; apply Hl; apply in_or_app; auto).
      cbn [app Expr.run]. rewrite step_bin. reflexivity.
    - rewrite <- !app_assoc.
      rewrite IHb by (intros; apply Hl; apply in_or_app; auto).
      rewrite IHlo by (intros; apply Hl; apply in_or_app; right; apply in_or_app; auto).
      rewrite IHhi by (intros; apply Hl; apply in_or_app; right; apply in_or_app; auto).
      cbn [app Expr.run]. rewrite step_ineq. reflexivity.
    - rewrite <- !app_assoc.
      rewrite IHc by (intros; apply Hl; apply in_or_app; auto).
      rewrite IHt by (intros; apply Hl; apply in_or_app; right; apply in_or_app; auto).
      rewrite IHf by (intros; apply Hl; apply in_or_app; right; apply in_or_app; auto).
      cbn [app Expr.run]. rewrite step_if. reflexivity.
  Qed.

  (* the compiled evaluator returns the direct evaluation of the expression *)
  Theorem rpn_correct e :
    (forall l, In l (leaves e) -> 0 <= ndx l) -> exec (rpn e) = Some (eval e).
  Proof.
    intro Hl. unfold Expr.exec. rewrite <- (app_nil_r (rpn e)). rewrite run_rpn by assumption. reflexivity.
  Qed.

  (* stack discipline: evaluating an expression never touches what is below it *)
  Corollary rpn_preserves_stack e stk :
    (forall l, In l (leaves e) -> 0 <= ndx l) -> run (rpn e) stk = Some (eval e :: stk).
  Proof. intro Hl. rewrite <- (app_nil_r (rpn e)). rewrite run_rpn by assumption. reflexivity. Qed.
End Generic.
