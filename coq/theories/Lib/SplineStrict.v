(* strict version: with a positive secant slope the cubic is strictly increasing on the interval; and the mirror image for decreasing data *)
From Coq Require Import Reals Lra.
From WNTRV Require Import Lib.ExprR Gen.Formulas Lib.Spline Lib.SplineMono.
Local Open Scope R_scope.

Lemma quad_three_roots A B C x y z : x < y -> y < z ->
  A * x ^ 2 + B * x + C = 0 -> A * y ^ 2 + B * y + C = 0 -> A * z ^ 2 + B * z + C = 0 -> A = 0 /\ B = 0 /\ C = 0.
Proof.
  intros Hxy Hyz Hx Hy Hz.
  assert (E1 : (y - x) * (A * (y + x) + B) = 0) by (replace ((y - x) * (A * (y + x) + B)) with ((A * y ^ 2 + B * y + C) - (A * x ^ 2 + B * x + C)) by ring; lra).
  assert (E2 : (z - y) * (A * (z + y) + B) = 0) by (replace ((z - y) * (A * (z + y) + B)) with ((A * z ^ 2 + B * z + C) - (A * y ^ 2 + B * y + C)) by ring; lra).
  assert (F1 : A * (y + x) + B = 0) by (destruct (Rmult_integral _ _ E1); lra).
  assert (F2 : A * (z + y) + B = 0) by (destruct (Rmult_integral _ _ E2); lra).
  assert (G : A * (z - x) = 0) by lra.
  assert (HA : A = 0) by (destruct (Rmult_integral _ _ G); lra).
  subst A. assert (HB : B = 0) by lra. subst B. repeat split; lra.
Qed.

Theorem spline_strictly_monotone x1 x2 f1 f2 df1 df2 x y : x1 < x2 -> f1 < f2 ->
  0 <= df1 <= 3 * ((f2 - f1) / (x2 - x1)) -> 0 <= df2 <= 3 * ((f2 - f1) / (x2 - x1)) -> x1 <= x -> x < y -> y <= x2 ->
  poly (cubic_spline x1 x2 f1 f2 df1 df2) x < poly (cubic_spline x1 x2 f1 f2 df1 df2) y.
Proof.
  intros Hx Hf H1 H2 Hlo Hxy Hhi. set (k := cubic_spline x1 x2 f1 f2 df1 df2).
  pose proof (simpson k x y) as S.
  pose proof (spline_derivative_nonneg x1 x2 f1 f2 df1 df2 x Hx H1 H2 ltac:(lra)) as D1.
  pose proof (spline_derivative_nonneg x1 x2 f1 f2 df1 df2 ((x + y) / 2) Hx H1 H2 ltac:(lra)) as D2.
  pose proof (spline_derivative_nonneg x1 x2 f1 f2 df1 df2 y Hx H1 H2 ltac:(lra)) as D3.
  fold k in D1, D2, D3.
  destruct (Rlt_dec 0 (dpoly k x + 4 * dpoly k ((x + y) / 2) + dpoly k y)) as [Hpos|Hz].
  - assert (0 < (y - x) / 6 * (dpoly k x + 4 * dpoly k ((x + y) / 2) + dpoly k y)) by (apply Rmult_lt_0_compat; lra). lra.
  - (* the derivative vanishes at three points: it is the zero polynomial, the cubic is constant, f1 = f2 *)
    exfalso. assert (Z1 : dpoly k x = 0) by lra. assert (Z2 : dpoly k ((x + y) / 2) = 0) by lra. assert (Z3 : dpoly k y = 0) by lra.
    destruct (spline_interpolates x1 x2 f1 f2 df1 df2 ltac:(lra)) as (P1 & P2 & _). fold k in P1, P2.
    destruct k as [[[a b] c] d] eqn:Ek. unfold dpoly in Z1, Z2, Z3. unfold poly in P1, P2.
    destruct (quad_three_roots (3 * a) (2 * b) c x ((x + y) / 2) y ltac:(lra) ltac:(lra)) as (HA & HB & HC); try lra.
    assert (a = 0) by lra. assert (b = 0) by lra. subst a b c. lra.
Qed.

(* the construction is linear in the data: mirroring values and slopes mirrors the cubic *)
Lemma spline_neg x1 x2 f1 f2 df1 df2 x : x1 <> x2 ->
  poly (cubic_spline x1 x2 (- f1) (- f2) (- df1) (- df2)) x = - poly (cubic_spline x1 x2 f1 f2 df1 df2) x.
Proof.
  intro H. pose proof (cube_diff_nz x1 x2 H) as Hc. unfold cubic_spline, poly. cbv zeta. field. repeat split; try exact Hc; lra.
Qed.
Theorem spline_strictly_decreasing x1 x2 f1 f2 df1 df2 x y : x1 < x2 -> f2 < f1 ->
  0 <= - df1 <= 3 * ((f1 - f2) / (x2 - x1)) -> 0 <= - df2 <= 3 * ((f1 - f2) / (x2 - x1)) -> x1 <= x -> x < y -> y <= x2 ->
  poly (cubic_spline x1 x2 f1 f2 df1 df2) y < poly (cubic_spline x1 x2 f1 f2 df1 df2) x.
Proof.
  intros Hx Hf H1 H2 Hlo Hxy Hhi.
  pose proof (spline_strictly_monotone x1 x2 (- f1) (- f2) (- df1) (- df2) x y Hx ltac:(lra)) as M.
  replace ((- f2 - - f1) / (x2 - x1)) with ((f1 - f2) / (x2 - x1)) in M by (field; lra).
  specialize (M H1 H2 Hlo Hxy Hhi). rewrite !spline_neg in M by lra. lra.
Qed.
