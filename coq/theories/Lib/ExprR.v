(* Real-number semantics of the aml expression language, and the symbolic
   derivative corresponding to expr.py reverse_sd (as a tree transformation). *)
From Coq Require Import Reals ZArith List Bool Lra.
From WNTRV Require Import Lib.Expr.
Import ListNotations.
Local Open Scope R_scope.

(* C pow(x,y) on the part of its domain the models use:
   x > 0: exp(y ln x);  x = 0: 1 if y = 0 else 0 (y > 0);  x < 0: only for y = 2, 3 (integer literal exponents) *)
Definition pw (x y : R) : R :=
  if Rlt_dec 0 x then Rpower x y
  else if Req_EM_T x 0 then (if Req_EM_T y 0 then 1 else 0)
  else if Req_EM_T y 2 then x * x
  else if Req_EM_T y 3 then x * x * x
  else if Req_EM_T y 1 then x
  else if Req_EM_T y 0 then 1
  else 0.  (* outside the modelled domain (C returns NaN for non-integer y) *)

Definition sgn (x : R) : R := if Rle_dec 0 x then 1 else -1.   (* evaluator.cpp: arg >= 0 ? 1 : -1 *)
Definition ineqR (b lo hi : R) : R := if Rle_dec lo b then (if Rle_dec b hi then 1 else 0) else 0.
Definition ifR (c t f : R) : R := if Req_EM_T c 1 then t else f.

Definition usemR (o : uop) (x : R) : R :=
  match o with
  | UNeg => - x | UAbs => Rabs x | USign => sgn x | UExp => exp x | ULog => ln x
  | USin => sin x | UCos => cos x | UTan => tan x | UAsin => asin x | UAcos => acos x | UAtan => atan x
  end.
Definition bsemR (o : bop) (x y : R) : R :=
  match o with BAdd => x + y | BSub => x - y | BMul => x * y | BDiv => x / y | BPow => pw x y end.

(* leaves: variables (by number) and constants (Param / Float values) *)
Inductive rleaf := RV (n : nat) | RC (c : R).
Definition leafR (env : nat -> R) (l : rleaf) : R := match l with RV n => env n | RC c => c end.
Definition evalR (env : nat -> R) (e : expr rleaf) : R := eval usemR bsemR ineqR ifR (leafR env) e.

Definition cst (c : R) : expr rleaf := ELeaf (RC c).
Definition is_const_leaf (e : expr rleaf) : bool := match e with ELeaf (RC _) => true | _ => false end.

(* symbolic derivative w.r.t. variable v, following the diff_down rules of expr.py *)
Fixpoint D (v : nat) (e : expr rleaf) : expr rleaf :=
  match e with
  | ELeaf (RV n) => if Nat.eqb n v then cst 1 else cst 0
  | ELeaf (RC _) => cst 0
  | EUn UNeg a => EUn UNeg (D v a)
  | EUn UAbs a => EBin BMul (D v a) (EUn USign a)
  | EUn USign a => cst 0
  | EUn UExp a => EBin BMul (D v a) (EUn UExp a)
  | EUn ULog a => EBin BDiv (D v a) a
  | EUn USin a => EBin BMul (D v a) (EUn UCos a)
  | EUn UCos a => EUn UNeg (EBin BMul (D v a) (EUn USin a))
  | EUn UTan a => EBin BDiv (D v a) (EBin BMul (EUn UCos a) (EUn UCos a))
  | EUn UAsin a => EBin BDiv (D v a) (EBin BPow (EBin BSub (cst 1) (EBin BMul a a)) (cst (1/2)))
  | EUn UAcos a => EUn UNeg (EBin BDiv (D v a) (EBin BPow (EBin BSub (cst 1) (EBin BMul a a)) (cst (1/2))))
  | EUn UAtan a => EBin BDiv (D v a) (EBin BAdd (cst 1) (EBin BMul a a))
  | EBin BAdd a b => EBin BAdd (D v a) (D v b)
  | EBin BSub a b => EBin BSub (D v a) (D v b)
  | EBin BMul a b => EBin BAdd (EBin BMul (D v a) b) (EBin BMul (D v b) a)
  | EBin BDiv a b => EBin BSub (EBin BDiv (D v a) b) (EBin BDiv (EBin BMul (D v b) a) (EBin BMul b b))
  | EBin BPow a b =>
      let t1 := EBin BMul (EBin BMul (D v a) b) (EBin BPow a (EBin BSub b (cst 1))) in
      if is_const_leaf b then t1
      else EBin BAdd t1 (EBin BMul (EBin BMul (D v b) (EBin BPow a b)) (EUn ULog a))
  | EIneq _ _ _ => cst 0
  | EIf c t f => EIf c (D v t) (D v f)
  end.

(* where the expression is differentiable (the "domain of definition" of the property) *)
Fixpoint diffable (env : nat -> R) (e : expr rleaf) : Prop :=
  match e with
  | ELeaf _ => True
  | EUn o a => diffable env a /\
      match o with
      | UAbs | USign => evalR env a <> 0
      | ULog => 0 < evalR env a
      | UTan => cos (evalR env a) <> 0
      | UAsin | UAcos => False      (* not covered by the theorem (numeric tie only) *)
      | _ => True
      end
  | EBin o a b => diffable env a /\ diffable env b /\
      match o with
      | BDiv => evalR env b <> 0
      | BPow => 0 < evalR env a
      | _ => True
      end
  | EIneq b lo hi => diffable env b /\ is_const_leaf lo = true /\ is_const_leaf hi = true /\
                     evalR env b <> evalR env lo /\ evalR env b <> evalR env hi
  | EIf c t f => False            (* branch selection: handled per branch by the conditional-constraint theorem *)
  end.
