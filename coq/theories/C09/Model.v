(* C09 -- isolated junctions.  Graph = link list with "not closed" flags; sources = tanks and reservoirs.
   The executable model computes the set reachable from the sources by iterated expansion and CHECKS that the
   result is closed under open links; Proofs.v shows that a closed, sound set is exactly the reachable set. *)
From Coq Require Import QArith List Bool Arith.
Import ListNotations.
Local Open Scope nat_scope.

Definition glink := (nat * nat * bool)%type.      (* start, end, open (status <> Closed) *)
Definition memb (x : nat) (l : list nat) : bool := existsb (Nat.eqb x) l.

Definition adjb (links : list glink) (S : list nat) (v : nat) : bool :=
  existsb (fun l => match l with (s, e, o) =>
     o && ((memb s S && Nat.eqb e v) || (memb e S && Nat.eqb s v)) end) links.
Definition expand (links : list glink) (nodes S : list nat) : list nat :=
  S ++ filter (fun v => negb (memb v S) && adjb links S v) nodes.
Fixpoint iter (links : list glink) (nodes : list nat) (n : nat) (S : list nat) : list nat :=
  match n with O => S | Datatypes.S k => iter links nodes k (expand links nodes S) end.
Definition closedb (links : list glink) (S : list nat) : bool :=
  forallb (fun l => match l with (s, e, o) => negb o || Bool.eqb (memb s S) (memb e S) end) links.

(* what the simulator should flag: junctions not reachable from any source; None = fuel did not suffice
   (excluded by the correspondence check on every case; the theorem speaks about Some) *)
Definition isolated_model (links : list glink) (nodes sources juncs : list nat) : option (list nat) :=
  let S := iter links nodes (length nodes) sources in
  if closedb links S then Some (filter (fun j => negb (memb j S)) juncs) else None.
(* links attached to an isolated junction are isolated too *)
Definition isolated_links (links : list glink) (I : list nat) : list nat :=
  let fix go (ls : list glink) (i : nat) : list nat :=
    match ls with
    | [] => []
    | (s, e, _) :: r => if memb s I || memb e I then i :: go r (S i) else go r (S i)
    end in go links 0%nat.

Definition set_eqb (a b : list nat) : bool :=
  forallb (fun x => memb x b) a && forallb (fun x => memb x a) b.

(* reported values of an isolated junction and its links are zero *)
Local Open Scope Q_scope.
Definition zero_at (l : list Q) (i : nat) : bool := Qeq_bool (nth i l 1) 0.
Definition zeros_ok (I IL : list nat) (demand pressure flow : list Q) : bool :=
  forallb (fun j => zero_at demand j && zero_at pressure j) I && forallb (fun k => zero_at flow k) IL.
