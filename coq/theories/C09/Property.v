(* C09 -- property theorems only. *)
From Coq Require Import List Bool Arith.
From WNTRV Require Import C09.Model C09.Proofs C09.Graph C09.GraphProofs C09.Total.
Import ListNotations.

(* the flagged set is exactly the junctions with no path of non-closed links to a tank or reservoir,
   for every topology (parallel links in either direction included) and every pattern of closed links *)
Theorem C09_isolated_iff : forall links nodes sources juncs I,
  isolated_model links nodes sources juncs = Some I ->
  forall j, In j I <-> (In j juncs /\ ~ reach links sources j).
Proof. exact isolated_iff. Qed.

(* ... and the model always answers (its fuel suffices) whenever the non-closed links join listed nodes: the theorem above is never vacuous *)
Theorem C09_model_total : forall links nodes, (forall s e, In (s, e, true) links -> In s nodes /\ In e nodes) ->
  forall sources juncs, exists I, isolated_model links nodes sources juncs = Some I.
Proof. exact isolated_model_total. Qed.

Theorem C09_connected_never_isolated : forall links nodes sources juncs I j,
  isolated_model links nodes sources juncs = Some I -> reach links sources j -> ~ In j I.
Proof. exact connected_never_isolated. Qed.

(* the simulator does not search the link list but a sparse matrix that it builds once and then maintains incrementally from the
   control change tracker: for EVERY topology (parallel links in either direction) and EVERY history of status changes made by control
   actions, after each update the entry of a node pair is non-zero exactly when one of the links joining the pair is not closed *)
Theorem C09_matrix_built_right : forall links k, init links k = spec links k.
Proof. exact init_spec. Qed.
Theorem C09_matrix_maintained_right : forall links ops u v,
  g_data (gstep (grun links ops) Update) (key u v) <> 0 <-> adj (g_links (grun links ops)) u v.
Proof. exact matrix_is_adjacency. Qed.
Theorem C09_one_update_right : forall links links' changed d,
  same_keys links links' -> (forall k, d k = spec links' k) ->
  (forall i l l', nth_error links i = Some l -> nth_error links' i = Some l' -> lopen l <> lopen l' -> In i changed) ->
  forall k, update links changed d k = spec links k.
Proof. exact update_spec. Qed.
(* a history on the example: two parallel links J1 = J2 in opposite directions; closing one keeps the pair joined, closing both cuts it,
   reopening one joins it again; the entry of the untouched pair (2, 3) stays 1 *)
Example C09_matrix_history :
  let links := [(0, 1, true); (1, 2, true); (2, 1, true); (2, 3, true)] in
  map (fun ops => entries (g_links (grun links ops)) (g_data (grun links ops)))
      [[Fire 1 false; Update]; [Fire 1 false; Update; Fire 2 false; Update]; [Fire 1 false; Fire 2 false; Update; Fire 1 true; Update]]
  = [[1; 1; 1; 1]; [1; 0; 0; 1]; [1; 1; 1; 1]].
Proof. vm_compute. reflexivity. Qed.

Print Assumptions C09_isolated_iff.
Print Assumptions C09_model_total.
Print Assumptions C09_matrix_built_right.
Print Assumptions C09_matrix_maintained_right.
Print Assumptions C09_one_update_right.
Print Assumptions C09_connected_never_isolated.
