(* C09 -- property theorems only. *)
From Coq Require Import List Bool Arith.
From WNTRV Require Import C09.Model C09.Proofs.
Import ListNotations.

(* the flagged set is exactly the junctions with no path of non-closed links to a tank or reservoir,
   for every topology (parallel links in either direction included) and every pattern of closed links *)
Theorem C09_isolated_iff : forall links nodes sources juncs I,
  isolated_model links nodes sources juncs = Some I ->
  forall j, In j I <-> (In j juncs /\ ~ reach links sources j).
Proof. exact isolated_iff. Qed.

Theorem C09_connected_never_isolated : forall links nodes sources juncs I j,
  isolated_model links nodes sources juncs = Some I -> reach links sources j -> ~ In j I.
Proof. exact connected_never_isolated. Qed.

Print Assumptions C09_isolated_iff.
Print Assumptions C09_connected_never_isolated.
