(* C09 -- the fuel of the executable reachability model always suffices: isolated_model never answers None on a network whose
   non-closed links join nodes of the node list (so C09_isolated_iff is never vacuous) *)
From Coq Require Import List Bool Arith Lia.
From WNTRV Require Import C09.Model C09.Proofs.
Import ListNotations.

Definition msize (nodes S : list nat) : nat := length (filter (fun v => memb v S) nodes).

Lemma filter_len_le {A} (f : A -> bool) l : length (filter f l) <= length l.
Proof. induction l as [|a l IH]; cbn; [lia|]. destruct (f a); cbn; lia. Qed.
Lemma filter_len_full {A} (f : A -> bool) l : length (filter f l) = length l -> forall x, In x l -> f x = true.
Proof.
  induction l as [|a l IH]; cbn; intros H x Hx; [destruct Hx|]. pose proof (filter_len_le f l) as L.
  destruct (f a) eqn:E; cbn in H; [|lia]. destruct Hx as [<-|Hx]; [exact E|apply IH; [lia|exact Hx]].
Qed.
Lemma filter_len_lt {A} (f g : A -> bool) l :
  (forall v, f v = true -> g v = true) -> (exists x, In x l /\ f x = false /\ g x = true) -> length (filter f l) < length (filter g l).
Proof.
  intros Hfg. assert (Hle : forall l0, length (filter f l0) <= length (filter g l0)).
  { induction l0 as [|a l0 IH]; cbn; [lia|]. destruct (f a) eqn:E; [rewrite (Hfg _ E); cbn; lia|destruct (g a); cbn; lia]. }
  induction l as [|a l IH]; intros [x [Hx [Hf Hg]]]; [destruct Hx|]. cbn. destruct Hx as [->|Hx].
  - rewrite Hf, Hg. cbn. specialize (Hle l). lia.
  - assert (length (filter f l) < length (filter g l)) by (apply IH; exists x; tauto).
    destruct (f a) eqn:E; [rewrite (Hfg _ E); cbn; lia|destruct (g a); cbn; lia].
Qed.
Lemma filter_nil {A} (f : A -> bool) l : filter f l = [] -> forall x, In x l -> f x = false.
Proof. induction l as [|a l IH]; cbn; intros H x Hx; [destruct Hx|]. destruct (f a) eqn:E; [discriminate|]. destruct Hx as [<-|Hx]; [exact E|apply IH; assumption]. Qed.

Lemma memb_app x a b : memb x (a ++ b) = memb x a || memb x b.
Proof. unfold memb. apply existsb_app. Qed.

Section Total.
Variables (links : list glink) (nodes : list nat).
Hypothesis ends_in_nodes : forall s e, In (s, e, true) links -> In s nodes /\ In e nodes.

Definition fresh (S : list nat) : list nat := filter (fun v => negb (memb v S) && adjb links S v) nodes.

Lemma no_fresh_closed S : fresh S = [] -> closedb links S = true.
Proof.
  intro H. unfold closedb. apply forallb_forall. intros [[s e] o] Hin. destruct o; cbn [negb orb]; [|reflexivity].
  destruct (ends_in_nodes s e Hin) as [Hs He].
  pose proof (filter_nil _ _ H s Hs) as Fs. pose proof (filter_nil _ _ H e He) as Fe. cbn beta in Fs, Fe.
  destruct (memb s S) eqn:Ms; destruct (memb e S) eqn:Me; try reflexivity; exfalso.
  - cbn [negb andb] in Fe. assert (adjb links S e = true); [|congruence].
    unfold adjb. apply existsb_exists. exists (s, e, true). split; [exact Hin|]. rewrite Ms, Nat.eqb_refl. reflexivity.
  - cbn [negb andb] in Fs. assert (adjb links S s = true); [|congruence].
    unfold adjb. apply existsb_exists. exists (s, e, true). split; [exact Hin|]. rewrite Me, Nat.eqb_refl. cbn. apply orb_true_r.
Qed.
Lemma no_fresh_iter n : forall S, fresh S = [] -> iter links nodes n S = S.
Proof.
  induction n as [|n IH]; intros S H; cbn [iter]; [reflexivity|]. unfold expand. fold (fresh S). rewrite H, app_nil_r. apply IH. exact H.
Qed.
Lemma fresh_grows S : fresh S <> [] -> msize nodes S < msize nodes (expand links nodes S).
Proof.
  intro H. unfold msize, expand. fold (fresh S). apply filter_len_lt.
  - intros v Hv. rewrite memb_app, Hv. reflexivity.
  - destruct (fresh S) as [|x r] eqn:F; [contradiction|]. exists x.
    assert (Hx : In x (fresh S)) by (rewrite F; left; reflexivity). unfold fresh in Hx. apply filter_In in Hx. destruct Hx as [Hn Hc].
    apply andb_true_iff in Hc. destruct Hc as [Hc _]. apply negb_true_iff in Hc. split; [exact Hn|]. split; [exact Hc|].
    rewrite memb_app. unfold memb at 2. cbn [existsb]. rewrite Nat.eqb_refl. apply orb_true_r.
Qed.
Lemma enough_fuel n : forall S, length nodes - msize nodes S <= n -> closedb links (iter links nodes n S) = true.
Proof.
  induction n as [|n IH]; intros S H.
  - cbn [iter]. apply no_fresh_closed. unfold fresh.
    assert (Hall : forall x, In x nodes -> memb x S = true).
    { apply filter_len_full. pose proof (filter_len_le (fun v => memb v S) nodes). unfold msize in H. lia. }
    destruct (filter _ nodes) as [|x r] eqn:F; [reflexivity|]. exfalso.
    assert (Hx : In x (filter (fun v => negb (memb v S) && adjb links S v) nodes)) by (rewrite F; left; reflexivity).
    apply filter_In in Hx. destruct Hx as [Hn Hc]. rewrite (Hall x Hn) in Hc. discriminate.
  - destruct (fresh S) as [|x r] eqn:F.
    + rewrite no_fresh_iter by exact F. apply no_fresh_closed. exact F.
    + cbn [iter]. apply IH. assert (msize nodes S < msize nodes (expand links nodes S)) by (apply fresh_grows; rewrite F; discriminate). lia.
Qed.

Theorem isolated_model_total sources juncs : exists I, isolated_model links nodes sources juncs = Some I.
Proof.
  unfold isolated_model. rewrite enough_fuel by lia. eexists. reflexivity.
Qed.
End Total.
