(* C09 -- the simulator's internal connectivity matrix and its incremental maintenance
   (wntr/sim/core.py: _initialize_internal_graph, _update_internal_graph; ControlChangeTracker of
   wntr/network/controls.py restricted to link status targets).

   The matrix is a scipy CSR matrix with ONE stored entry per ordered node pair that has a link (duplicates of the
   (vals, (rows, cols)) constructor are summed), always written symmetrically, so that it is a function of the
   unordered pair `key u v`.  _get_csr_data_index gives all parallel links of a pair -- in either direction -- the same
   entry.  Model: data = key -> nat.
     init   : the summed constructor, then for every pair with more than one link: entry := 0, then := 1 for every
              non-closed link of the pair;
     update : for every (link, 'status') reported by the change tracker, in its order: entry := status <> Closed;
              then the same pass over the pairs with more than one link.
   Theorems: after init and after ANY history of control actions and updates the entry of every pair is 1 iff one of
   its links is not closed, else 0 (so the breadth-first search over the matrix sees exactly `adj` of C09/Proofs.v),
   provided every status change goes through a control action (what the tracker observes).  Self-loop links are
   excluded (no_loops): _initialize_internal_graph collects for the pair (u, u) every link at u. *)
From Coq Require Import List Bool Arith Lia.
From WNTRV Require Import C09.Model C09.Proofs.
Import ListNotations.

Definition key (u v : nat) : nat * nat := if u <=? v then (u, v) else (v, u).
Definition keqb (a b : nat * nat) : bool := (fst a =? fst b) && (snd a =? snd b).
Definition lkey (l : glink) : nat * nat := match l with (s, e, _) => key s e end.
Definition lopen (l : glink) : bool := match l with (_, _, o) => o end.
Definition b2n (b : bool) : nat := if b then 1 else 0.

Definition data := nat * nat -> nat.
Definition upd (d : data) (k : nat * nat) (v : nat) : data := fun k' => if keqb k k' then v else d k'.

Definition between (links : list glink) (k : nat * nat) : list glink := filter (fun l => keqb (lkey l) k) links.
(* csr_matrix((vals, (rows, cols))): duplicates are summed; vals = 1 for a non-closed link *)
Definition csr_sum (links : list glink) : data := fun k => length (filter lopen (between links k)).

Fixpoint dedup (l : list (nat * nat)) : list (nat * nat) :=
  match l with
  | [] => []
  | k :: r => k :: filter (fun k' => negb (keqb k k')) (dedup r)
  end.
(* _node_pairs_with_multiple_links, in order of first appearance *)
Definition multi_keys (links : list glink) : list (nat * nat) :=
  filter (fun k => 2 <=? length (between links k)) (dedup (map lkey links)).

Definition pair_pass (links : list glink) (d : data) (k : nat * nat) : data :=
  fold_left (fun d l => if lopen l then upd d (lkey l) 1 else d) (between links k) (upd d k 0).
Definition multi_pass (links : list glink) (d : data) : data := fold_left (pair_pass links) (multi_keys links) d.

Definition init (links : list glink) : data := multi_pass links (csr_sum links).

Definition apply_changes (links : list glink) (changed : list nat) (d : data) : data :=
  fold_left (fun d i => match nth_error links i with
                        | Some l => upd d (lkey l) (b2n (lopen l))
                        | None => d end) changed d.
Definition update (links : list glink) (changed : list nat) (d : data) : data :=
  multi_pass links (apply_changes links changed d).

(* what the entries should be *)
Definition spec (links : list glink) : data := fun k => b2n (existsb lopen (between links k)).

(* the values stored for the links, in link order (what the harness reads through the index map) *)
Definition entries (links : list glink) (d : data) : list nat := map (fun l => d (lkey l)) links.

(* ------------------------------------------------------------------------------------------------ *)
(* the change tracker restricted to link statuses + the graph: a state machine over histories *)
Inductive op := Fire (i : nat) (o : bool) | Update.
Record gstate := { g_links : list glink; g_prev : list bool; g_changed : list nat; g_data : data }.

Fixpoint set_open (links : list glink) (i : nat) (o : bool) : list glink :=
  match links, i with
  | [], _ => []
  | (s, e, _) :: r, O => (s, e, o) :: r
  | l :: r, S j => l :: set_open r j o
  end.
Definition remove_nat (i : nat) (l : list nat) : list nat := filter (fun j => negb (j =? i)) l.
Definition add_nat (i : nat) (l : list nat) : list nat := if memb i l then l else l ++ [i].

Definition gstep (s : gstate) (o : op) : gstate :=
  match o with
  | Fire i b =>
      if i <? length (g_links s) then
        {| g_links := set_open (g_links s) i b; g_prev := g_prev s;
           g_changed := if Bool.eqb b (nth i (g_prev s) false) then remove_nat i (g_changed s) else add_nat i (g_changed s);
           g_data := g_data s |}
      else s
  | Update =>
      {| g_links := g_links s; g_prev := map lopen (g_links s); g_changed := [];
         g_data := update (g_links s) (g_changed s) (g_data s) |}
  end.
Definition ginit (links : list glink) : gstate :=
  {| g_links := links; g_prev := map lopen links; g_changed := []; g_data := init links |}.
Definition grun (links : list glink) (ops : list op) : gstate := fold_left gstep ops (ginit links).

(* ------------------------------------------------------------------------------------------------ *)
(* replay of a traced history (used by the correspondence check): the matrix entries read through the
   link -> data index map after _initialize_internal_graph and after every _update_internal_graph *)
Definition gobs := (list nat * list bool * list nat)%type.   (* tracker's changed links, open flags now, observed entries *)
Definition leqb (a b : list nat) : bool := (length a =? length b) && forallb (fun p => fst p =? snd p) (combine a b).
Fixpoint with_open (links : list glink) (bs : list bool) : list glink :=
  match links, bs with
  | (s, e, _) :: r, b :: bs' => (s, e, b) :: with_open r bs'
  | _, _ => links
  end.
(* the tracker reported every link whose open/closed state differs from the previous update *)
Definition tracker_complete (prev now : list bool) (changed : list nat) : bool :=
  let fix go (p n : list bool) (i : nat) : bool :=
    match p, n with
    | a :: p', b :: n' => (Bool.eqb a b || memb i changed) && go p' n' (S i)
    | _, _ => true
    end in go prev now 0.
Fixpoint replay (links : list glink) (d : data) (h : list gobs) : bool :=
  match h with
  | [] => true
  | (changed, flags, obs) :: r =>
      let links' := with_open links flags in
      let d' := update links' changed d in
      tracker_complete (map lopen links) flags changed && leqb (entries links' d') obs
      && leqb (entries links' (spec links')) obs && replay links' d' r
  end.
Definition graph_ok (links : list glink) (obs0 : list nat) (h : list gobs) : bool :=
  leqb (entries links (init links)) obs0 && leqb (entries links (spec links)) obs0 && replay links (init links) h.
