From Coq Require Import List Bool Arith Lia.
From WNTRV Require Import C09.Model C09.Proofs C09.Graph.
Import ListNotations.

Lemma keqb_eq a b : keqb a b = true <-> a = b.
Proof.
  destruct a as [a1 a2], b as [b1 b2]. unfold keqb. cbn [fst snd]. rewrite andb_true_iff, !Nat.eqb_eq.
  split; [intros [-> ->]; reflexivity|intro H; injection H as -> ->; split; reflexivity].
Qed.
Lemma keqb_refl a : keqb a a = true.
Proof. apply keqb_eq. reflexivity. Qed.
Lemma keqb_neq a b : keqb a b = false <-> a <> b.
Proof. split; [intros H E; apply keqb_eq in E; congruence|intro H; destruct (keqb a b) eqn:E; [apply keqb_eq in E; contradiction|reflexivity]]. Qed.

Lemma between_In links k l : In l (between links k) <-> In l links /\ lkey l = k.
Proof. unfold between. rewrite filter_In. rewrite keqb_eq. tauto. Qed.

(* one pair: the entry becomes "some link of the pair is not closed"; nothing else is touched *)
Lemma pair_fold k : forall (L : list glink) (d0 : data) k', (forall l, In l L -> lkey l = k) ->
  fold_left (fun d l => if lopen l then upd d (lkey l) 1 else d) L d0 k' =
  if keqb k k' then (if existsb lopen L then 1 else d0 k') else d0 k'.
Proof.
  induction L as [|l L IH]; intros d0 k' HL; cbn [fold_left existsb].
  - destruct (keqb k k'); reflexivity.
  - assert (Hl : lkey l = k) by (apply HL; left; reflexivity).
    rewrite IH by (intros l0 H0; apply HL; right; exact H0).
    destruct (lopen l) eqn:Eo; cbn [orb]; [|reflexivity].
    unfold upd. rewrite Hl. destruct (keqb k k'); [destruct (existsb lopen L); reflexivity|reflexivity].
Qed.
Lemma pair_pass_val links d k k' : pair_pass links d k k' = if keqb k k' then spec links k else d k'.
Proof.
  unfold pair_pass. rewrite (pair_fold k) by (intros l H; apply between_In in H; tauto).
  unfold upd, spec. destruct (keqb k k'); [|reflexivity]. destruct (existsb lopen (between links k)); reflexivity.
Qed.
Lemma multi_fold links : forall ks d k',
  fold_left (pair_pass links) ks d k' = if existsb (fun k => keqb k k') ks then spec links k' else d k'.
Proof.
  induction ks as [|k ks IH]; intros d k'; cbn [fold_left existsb]; [reflexivity|].
  rewrite IH. rewrite pair_pass_val. destruct (keqb k k') eqn:E; cbn [orb].
  - apply keqb_eq in E. subst k'. destruct (existsb _ ks); reflexivity.
  - reflexivity.
Qed.

Lemma dedup_In l : forall k, In k (dedup l) <-> In k l.
Proof.
  induction l as [|a r IH]; intro k; cbn [dedup]; [tauto|]. cbn [In]. rewrite filter_In, IH, negb_true_iff, keqb_neq.
  destruct (keqb a k) eqn:E; [apply keqb_eq in E|apply keqb_neq in E]; tauto.
Qed.
Lemma multi_keys_mem links k :
  existsb (fun k0 => keqb k0 k) (multi_keys links) = (2 <=? length (between links k)).
Proof.
  destruct (2 <=? length (between links k)) eqn:E.
  - apply existsb_exists. exists k. split; [|apply keqb_refl]. unfold multi_keys. apply filter_In. split; [|exact E].
    apply dedup_In. apply Nat.leb_le in E. destruct (between links k) as [|l r] eqn:B; [cbn in E; lia|].
    assert (H : In l (between links k)) by (rewrite B; left; reflexivity). apply between_In in H. destruct H as [H1 H2].
    rewrite <- H2. apply in_map. exact H1.
  - destruct (existsb _ (multi_keys links)) eqn:X; [|reflexivity]. apply existsb_exists in X. destruct X as [k0 [H1 H2]].
    apply keqb_eq in H2. subst k0. unfold multi_keys in H1. apply filter_In in H1. destruct H1 as [_ H1]. congruence.
Qed.
Lemma multi_pass_val links d k :
  multi_pass links d k = if 2 <=? length (between links k) then spec links k else d k.
Proof. unfold multi_pass. rewrite multi_fold, multi_keys_mem. reflexivity. Qed.

Lemma csr_single links k : length (between links k) <= 1 -> csr_sum links k = spec links k.
Proof.
  unfold csr_sum, spec. destruct (between links k) as [|l [|l2 r]]; cbn [length filter existsb]; intro H; [reflexivity| |lia].
  destruct (lopen l); reflexivity.
Qed.

(* the matrix as built: one per pair iff one of its links is not closed *)
Theorem init_spec links k : init links k = spec links k.
Proof.
  unfold init. rewrite multi_pass_val. destruct (2 <=? length (between links k)) eqn:E; [reflexivity|].
  apply Nat.leb_gt in E. apply csr_single. lia.
Qed.

Definition touches (links : list glink) (k : nat * nat) (j : nat) : bool :=
  match nth_error links j with Some l => keqb (lkey l) k | None => false end.
Lemma apply_changes_val links k v : forall changed d,
  (forall j l, In j changed -> nth_error links j = Some l -> lkey l = k -> b2n (lopen l) = v) ->
  apply_changes links changed d k = if existsb (touches links k) changed then v else d k.
Proof.
  unfold apply_changes. induction changed as [|j r IH]; intros d H; cbn [fold_left existsb]; [reflexivity|].
  rewrite IH by (intros j0 l0 H0; apply H; right; exact H0).
  replace (touches links k j) with (match nth_error links j with Some l => keqb (lkey l) k | None => false end) by reflexivity.
  destruct (nth_error links j) as [l|] eqn:N; cbn [orb]; [|reflexivity].
  unfold upd. destruct (keqb (lkey l) k) eqn:E; cbn [orb]; [|reflexivity].
  apply keqb_eq in E. rewrite (H j l (or_introl eq_refl) N E). destruct (existsb _ r); reflexivity.
Qed.

Definition same_keys (links links' : list glink) : Prop := Forall2 (fun l l' => lkey l = lkey l') links links'.
Lemma same_keys_between links links' k : same_keys links links' -> length (between links k) = length (between links' k).
Proof.
  intro H. induction H as [|l l' r r' Hl Hr IH]; [reflexivity|]. unfold between in *. cbn [filter]. rewrite <- Hl.
  destruct (keqb (lkey l) k); cbn [length]; congruence.
Qed.
Lemma same_keys_nth links links' : same_keys links links' -> forall i l, nth_error links i = Some l ->
  exists l', nth_error links' i = Some l' /\ lkey l = lkey l'.
Proof.
  intro H. induction H as [|l0 l0' r r' Hl Hr IH]; intros i l N; [destruct i; discriminate|].
  destruct i as [|i]; cbn [nth_error] in *; [injection N as <-; exists l0'; split; [reflexivity|exact Hl]|apply IH; exact N].
Qed.

(* one incremental update: if the matrix was right for the statuses at the reference point and the tracker reports at least every
   link whose open/closed state differs from then, the matrix is right for the statuses now *)
Theorem update_spec links links' changed d :
  same_keys links links' -> (forall k, d k = spec links' k) ->
  (forall i l l', nth_error links i = Some l -> nth_error links' i = Some l' -> lopen l <> lopen l' -> In i changed) ->
  forall k, update links changed d k = spec links k.
Proof.
  intros Hk Hd Hc k. unfold update. rewrite multi_pass_val. destruct (2 <=? length (between links k)) eqn:E; [reflexivity|].
  apply Nat.leb_gt in E. change (spec links k) with (b2n (existsb lopen (between links k))).
  destruct (between links k) as [|l [|l2 r]] eqn:B; cbn [length] in E; [| |lia].
  - (* no link joins the pair *)
    rewrite (apply_changes_val links k 0).
    + assert (X : existsb (touches links k) changed = false).
      { destruct (existsb _ changed) eqn:X; [|reflexivity]. apply existsb_exists in X. destruct X as [j [_ T]]. unfold touches in T.
        destruct (nth_error links j) as [l|] eqn:N; [|discriminate]. apply keqb_eq in T.
        assert (In l (between links k)) by (apply between_In; split; [eapply nth_error_In; exact N|exact T]). rewrite B in H. destruct H. }
      rewrite X, Hd. unfold spec. cbn [existsb]. pose proof (same_keys_between links links' k Hk) as L. rewrite B in L. cbn [length] in L.
      destruct (between links' k); [reflexivity|cbn in L; lia].
    + intros j l _ N T. assert (In l (between links k)) by (apply between_In; split; [eapply nth_error_In; exact N|exact T]).
      rewrite B in H. destruct H.
  - (* exactly one link *)
    assert (Hl : In l links /\ lkey l = k) by (apply between_In; rewrite B; left; reflexivity). destruct Hl as [Hin Hkey].
    assert (Huniq : forall l0, In l0 links -> lkey l0 = k -> l0 = l).
    { intros l0 H1 H2. assert (H : In l0 (between links k)) by (apply between_In; tauto). rewrite B in H. destruct H as [H|[]]. congruence. }
    rewrite (apply_changes_val links k (b2n (lopen l))).
    + cbn [existsb]. rewrite orb_false_r.
      destruct (existsb (touches links k) changed) eqn:X; [reflexivity|].
      apply In_nth_error in Hin. destruct Hin as [i N].
      destruct (same_keys_nth _ _ Hk i l N) as [l' [N' Kl]].
      assert (Ho : lopen l = lopen l').
      { destruct (bool_dec (lopen l) (lopen l')) as [e|ne]; [exact e|]. exfalso.
        assert (Hi : In i changed) by (eapply Hc; eassumption).
        assert (existsb (touches links k) changed = true); [|congruence].
        apply existsb_exists. exists i. split; [exact Hi|]. unfold touches. rewrite N. apply keqb_eq. exact Hkey. }
      rewrite Hd. unfold spec.
      pose proof (same_keys_between links links' k Hk) as L. rewrite B in L. cbn [length] in L.
      assert (Hin' : In l' (between links' k)) by (apply between_In; split; [eapply nth_error_In; exact N'|congruence]).
      destruct (between links' k) as [|a [|a2 r']]; cbn [length] in L; [destruct Hin'| |lia].
      destruct Hin' as [->|[]]. cbn [existsb]. rewrite orb_false_r. congruence.
    + intros j l0 _ N T. rewrite (Huniq l0 (nth_error_In _ _ N) T). reflexivity.
Qed.

(* ------------------------------------------------------------------------------------------------ *)
(* histories *)
Lemma with_open_self links : with_open links (map lopen links) = links.
Proof. induction links as [|[[s e] o] r IH]; cbn; [reflexivity|]. rewrite IH. reflexivity. Qed.
Lemma with_open_keys links : forall bs, same_keys links (with_open links bs).
Proof.
  induction links as [|[[s e] o] r IH]; intro bs; [constructor|].
  destruct bs as [|b bs]; cbn [with_open].
  - constructor; [reflexivity|]. clear. induction r; constructor; [reflexivity|assumption].
  - constructor; [reflexivity|apply IH].
Qed.
Lemma with_open_set_open links : forall i b bs, length bs = length links -> with_open (set_open links i b) bs = with_open links bs.
Proof.
  induction links as [|[[s e] o] r IH]; intros i b bs L; [destruct i; reflexivity|].
  destruct bs as [|b0 bs]; [discriminate|]. cbn [length] in L.
  destruct i as [|i]; cbn [set_open with_open]; [reflexivity|]. rewrite IH by lia. reflexivity.
Qed.
Lemma with_open_nth links : forall bs i l', length bs = length links -> nth_error (with_open links bs) i = Some l' ->
  lopen l' = nth i bs false.
Proof.
  induction links as [|[[s e] o] r IH]; intros bs i l' L N; [destruct bs; [|discriminate]; destruct i; discriminate|].
  destruct bs as [|b bs]; [discriminate|]. cbn [length] in L. cbn [with_open] in N.
  destruct i as [|i]; cbn [nth_error nth] in *; [injection N as <-; reflexivity|]. apply IH; [lia|exact N].
Qed.
Lemma set_open_length links : forall i b, length (set_open links i b) = length links.
Proof. induction links as [|[[s e] o] r IH]; intros i b; [destruct i; reflexivity|]. destruct i; cbn [set_open length]; [reflexivity|]. rewrite IH. reflexivity. Qed.
Lemma set_open_nth links : forall i b j l, nth_error (set_open links i b) j = Some l ->
  (j = i /\ lopen l = b) \/ (j <> i /\ nth_error links j = Some l).
Proof.
  induction links as [|[[s e] o] r IH]; intros i b j l N; [destruct i; destruct j; discriminate|].
  destruct i as [|i]; cbn [set_open] in N.
  - destruct j as [|j]; cbn [nth_error] in N; [injection N as <-; left; split; reflexivity|right; split; [lia|exact N]].
  - destruct j as [|j]; cbn [nth_error] in *; [right; split; [lia|exact N]|].
    destruct (IH i b j l N) as [[-> H]|[H1 H2]]; [left; split; [reflexivity|exact H]|right; split; [lia|exact H2]].
Qed.

Definition ginv (s : gstate) : Prop :=
  length (g_prev s) = length (g_links s) /\
  (forall k, g_data s k = spec (with_open (g_links s) (g_prev s)) k) /\
  (forall i l, nth_error (g_links s) i = Some l -> lopen l <> nth i (g_prev s) false -> In i (g_changed s)).

Lemma ginv_init links : ginv (ginit links).
Proof.
  unfold ginv, ginit. cbn. split; [apply map_length|]. split.
  - intro k. rewrite with_open_self. apply init_spec.
  - intros i l N H. exfalso. apply H. erewrite nth_indep by (rewrite map_length; apply nth_error_Some; congruence).
    rewrite (map_nth lopen links l i). f_equal. symmetry. apply nth_error_nth. exact N.
Qed.

Lemma ginv_step s o : ginv s -> ginv (gstep s o).
Proof.
  intros [Hlen [Hd Hc]]. destruct o as [i b|]; cbn [gstep].
  - destruct (i <? length (g_links s)) eqn:Ei; [|split; [exact Hlen|split; [exact Hd|exact Hc]]].
    unfold ginv. cbn. split; [rewrite set_open_length; exact Hlen|]. split.
    + intro k. rewrite with_open_set_open by exact Hlen. apply Hd.
    + intros j l N Hne. destruct (set_open_nth _ _ _ _ _ N) as [[-> Hb]|[Hji Nj]].
      * rewrite Hb in Hne. destruct (Bool.eqb b (nth i (g_prev s) false)) eqn:Eb; [apply eqb_prop in Eb; contradiction|].
        unfold add_nat. destruct (memb i (g_changed s)) eqn:M; [apply memb_In; exact M|apply in_or_app; right; left; reflexivity].
      * specialize (Hc j l Nj Hne). destruct (Bool.eqb b (nth i (g_prev s) false)).
        -- unfold remove_nat. apply filter_In. split; [exact Hc|]. apply negb_true_iff. apply Nat.eqb_neq. exact Hji.
        -- unfold add_nat. destruct (memb i (g_changed s)); [exact Hc|apply in_or_app; left; exact Hc].
  - unfold ginv. cbn. split; [apply map_length|]. split.
    + intro k. rewrite with_open_self.
      apply (update_spec (g_links s) (with_open (g_links s) (g_prev s))); [apply with_open_keys|exact Hd|].
      intros i l l' N N' Hne. apply (Hc i l N). rewrite <- (with_open_nth _ _ _ _ Hlen N'). exact Hne.
    + intros i l N H. exfalso. apply H. erewrite nth_indep by (rewrite map_length; apply nth_error_Some; congruence).
      rewrite (map_nth lopen (g_links s) l i). f_equal. symmetry. apply nth_error_nth. exact N.
Qed.

Theorem ginv_run links ops : ginv (grun links ops).
Proof.
  unfold grun. generalize (ginv_init links). generalize (ginit links).
  induction ops as [|o ops IH]; intros s H; cbn [fold_left]; [exact H|]. apply IH. apply ginv_step. exact H.
Qed.

(* after every update of every history the matrix is exactly "some link of the pair is not closed" for the CURRENT statuses *)
Theorem graph_tracks_statuses links ops k :
  g_data (gstep (grun links ops) Update) k = spec (g_links (grun links ops)) k.
Proof.
  pose proof (ginv_step _ Update (ginv_run links ops)) as [_ [Hd _]]. rewrite Hd. cbn [gstep g_links g_prev].
  rewrite with_open_self. reflexivity.
Qed.

(* ... and that is the adjacency relation of the reachability theorem *)
Lemma key_eq s e u v : key s e = key u v <-> (s = u /\ e = v) \/ (s = v /\ e = u).
Proof.
  unfold key. destruct (s <=? e) eqn:E1; destruct (u <=? v) eqn:E2;
    repeat match goal with H : (_ <=? _) = true |- _ => apply Nat.leb_le in H | H : (_ <=? _) = false |- _ => apply Nat.leb_gt in H end;
    split; intro H; try (injection H as H1 H2); try lia;
    destruct H as [[-> ->]|[-> ->]]; try reflexivity; try lia; f_equal; lia.
Qed.
Theorem spec_adj links u v : spec links (key u v) <> 0 <-> adj links u v.
Proof.
  unfold spec. split.
  - intro H. destruct (existsb lopen (between links (key u v))) eqn:E; [|cbn in H; congruence].
    apply existsb_exists in E. destruct E as [[[s e] o] [Hb Ho]]. cbn in Ho. subst o. apply between_In in Hb. destruct Hb as [Hin Hk].
    cbn [lkey] in Hk. apply key_eq in Hk. exists s, e. split; [exact Hin|exact Hk].
  - intros [s [e [Hin He]]]. assert (E : existsb lopen (between links (key u v)) = true); [|rewrite E; cbn; congruence].
    apply existsb_exists. exists (s, e, true). split; [|reflexivity]. apply between_In. split; [exact Hin|]. cbn [lkey]. apply key_eq. exact He.
Qed.
Corollary matrix_is_adjacency links ops u v :
  g_data (gstep (grun links ops) Update) (key u v) <> 0 <-> adj (g_links (grun links ops)) u v.
Proof. rewrite graph_tracks_statuses. apply spec_adj. Qed.
