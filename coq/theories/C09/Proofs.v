From Coq Require Import List Bool Arith Lia.
From WNTRV Require Import C09.Model.
Import ListNotations.

Lemma memb_In x l : memb x l = true <-> In x l.
Proof.
  unfold memb. rewrite existsb_exists. split.
  - intros [y [Hy He]]. apply Nat.eqb_eq in He. subst. exact Hy.
  - intro H. exists x. split; [exact H|apply Nat.eqb_refl].
Qed.

(* adjacency through a non-closed link, in either direction (parallel links: any of them) *)
Definition adj (links : list glink) (u v : nat) : Prop :=
  exists s e, In (s, e, true) links /\ ((s = u /\ e = v) \/ (s = v /\ e = u)).

Inductive reach (links : list glink) (sources : list nat) : nat -> Prop :=
  | reach_src s : In s sources -> reach links sources s
  | reach_step u v : reach links sources u -> adj links u v -> reach links sources v.

Lemma adjb_sound links S v : adjb links S v = true -> exists u, In u S /\ adj links u v.
Proof.
  unfold adjb. rewrite existsb_exists. intros [[[s e] o] [Hin H]].
  apply andb_true_iff in H. destruct H as [Ho H]. subst o. apply orb_true_iff in H.
  destruct H as [H|H]; apply andb_true_iff in H; destruct H as [Hm He]; apply Nat.eqb_eq in He; subst;
    apply memb_In in Hm.
  - exists s. split; [exact Hm|]. exists s, v. split; [exact Hin|left; split; reflexivity].
  - exists e. split; [exact Hm|]. exists v, e. split; [exact Hin|right; split; reflexivity].
Qed.

Lemma expand_sound links nodes sources S :
  (forall v, In v S -> reach links sources v) -> forall v, In v (expand links nodes S) -> reach links sources v.
Proof.
  intros HS v Hin. unfold expand in Hin. apply in_app_or in Hin. destruct Hin as [Hin|Hin]; [auto|].
  apply filter_In in Hin. destruct Hin as [_ H]. apply andb_true_iff in H. destruct H as [_ H].
  destruct (adjb_sound _ _ _ H) as [u [Hu Ha]]. eapply reach_step; [apply HS; exact Hu|exact Ha].
Qed.

Lemma iter_sound links nodes sources n : forall S,
  (forall v, In v S -> reach links sources v) -> forall v, In v (iter links nodes n S) -> reach links sources v.
Proof.
  induction n as [|n IH]; intros S HS v Hin; cbn [iter] in Hin; [auto|].
  eapply IH; [|exact Hin]. apply expand_sound. exact HS.
Qed.

Lemma expand_incl links nodes S v : In v S -> In v (expand links nodes S).
Proof. intro H. unfold expand. apply in_or_app. left. exact H. Qed.
Lemma iter_incl links nodes n : forall S v, In v S -> In v (iter links nodes n S).
Proof. induction n as [|n IH]; intros S v H; cbn [iter]; [exact H|]. apply IH. apply expand_incl. exact H. Qed.

(* a set that contains the sources and is closed under non-closed links contains everything reachable *)
Lemma closed_complete links sources S :
  closedb links S = true -> (forall s, In s sources -> In s S) -> forall v, reach links sources v -> In v S.
Proof.
  intros Hc Hs v Hr. induction Hr as [s Hin|u v Hr IH Hadj]; [apply Hs; exact Hin|].
  destruct Hadj as [s [e [Hl Hends]]].
  unfold closedb in Hc. rewrite forallb_forall in Hc. specialize (Hc _ Hl). cbn in Hc.
  apply eqb_prop in Hc.
  destruct Hends as [[-> ->]|[-> ->]].
  - apply memb_In. rewrite <- Hc. apply memb_In. exact IH.
  - apply memb_In. rewrite Hc. apply memb_In. exact IH.
Qed.

Theorem isolated_iff links nodes sources juncs I :
  isolated_model links nodes sources juncs = Some I ->
  forall j, In j I <-> (In j juncs /\ ~ reach links sources j).
Proof.
  unfold isolated_model. set (S := iter links nodes (length nodes) sources).
  destruct (closedb links S) eqn:Hc; [|discriminate]. intro H. injection H as <-.
  intro j. rewrite filter_In. split.
  - intros [Hj Hn]. split; [exact Hj|]. intro Hr. apply negb_true_iff in Hn.
    assert (In j S).
    { apply (closed_complete links sources S Hc); [|exact Hr]. intros s0 Hs0. unfold S. apply iter_incl. exact Hs0. }
    apply memb_In in H. congruence.
  - intros [Hj Hn]. split; [exact Hj|]. apply negb_true_iff. destruct (memb j S) eqn:E; [|reflexivity].
    exfalso. apply Hn. apply memb_In in E. eapply iter_sound; [|exact E]. intros v Hv. apply reach_src. exact Hv.
Qed.

(* a junction with a path of non-closed links to a source is never flagged *)
Corollary connected_never_isolated links nodes sources juncs I j :
  isolated_model links nodes sources juncs = Some I -> reach links sources j -> ~ In j I.
Proof. intros H Hr Hin. apply (isolated_iff _ _ _ _ _ H) in Hin. tauto. Qed.

(* closing or opening links changes adjacency only through the "open" flags: parallel links keep a pair
   connected as long as ONE of them is open *)
Lemma adj_parallel links u v s e :
  In (s, e, true) links -> ((s = u /\ e = v) \/ (s = v /\ e = u)) -> adj links u v.
Proof. intros H1 H2. exists s, e. split; assumption. Qed.

Example iso_example :
  (* R(0) - J1 =(two parallel links, opposite directions, one closed)= J2 - J3 ; J4 hangs on a closed link *)
  isolated_model [(0, 1, true); (1, 2, true); (2, 1, false); (2, 3, true); (3, 4, false)] [0; 1; 2; 3; 4] [0] [1; 2; 3; 4]
  = Some [4].
Proof. vm_compute. reflexivity. Qed.
